#!/bin/bash
# one block of one data file returns EIO on read (bad sector); plain fix aborts instead of rebuilding the block
. "$(dirname "$0")/../common.sh"
HERE=$(dirname "$(readlink -f "$0")")
gcc -shared -fPIC -o $T/eio.so $HERE/eio.c -ldl || exit 2
mkarray 1 2
EXTRA="--test-force-order-alpha" # deterministic allocation: x before y
head -c 5000 /dev/urandom > $T/d1/x; touch -d '2010-01-01 01:01:01.123456789 UTC' $T/d1/x
head -c 3000 /dev/urandom > $T/d1/y
head -c 3000 /dev/urandom > $T/d2/other
Q sync || exit 2
A=$(sha1sum < $T/d1/x); Y=$(sha1sum < $T/d1/y)
# a second, ordinary damage on the same disk, to show that nothing at all gets fixed
rm $T/d1/y
# reads of bytes 1024..2047 of d1/x fail with EIO from now on (pread only; writes succeed, like a sector that gets remapped)
(
	export EIO_SUFFIX=/d1/x EIO_FROM=1024 EIO_TO=2048 LD_PRELOAD=$T/eio.so
	Q fix
) || { viol "fix failed"; tail -4 $T/last.out; }
[ "$(sha1sum < $T/d1/x)" = "$A" ] || viol "x differs"
[ -f $T/d1/y ] && [ "$(sha1sum < $T/d1/y)" = "$Y" ] || viol "d1/y (deleted) not restored"
Q check || viol "check reports errors after fix"
echo "--- for comparison, the same with 'fix --force-nocopy' (no search of copies in the array):"
( export EIO_SUFFIX=/d1/x EIO_FROM=1024 EIO_TO=2048 LD_PRELOAD=$T/eio.so; Q -N fix; tail -4 $T/last.out )
finish
