/*
 * LD_PRELOAD shim for fault/delay injection into snapraid.
 *
 * Environment (each may hold several entries separated by ';'):
 *  SHIM_LOG=<file>                       append a trace of the intercepted calls
 *  SHIM_PWRITE_FAIL=<substr>,<off>,<errno>   fail pwrite on files whose path contains substr at offset off (-1 any)
 *  SHIM_PWRITE_DELAY=<substr>,<off>,<ms>     sleep before pwrite (off -1 any)
 *  SHIM_PREAD_FAIL=<substr>,<off>,<errno>
 *  SHIM_PREAD_DELAY=<substr>,<off>,<ms>
 *  SHIM_DIR_DELAY=<substr>,<ms>              sleep before opendir of a path containing substr
 *  SHIM_RENAME_KILL=<substr>,<nth>           SIGKILL self at the nth rename whose destination contains substr
 *  SHIM_FSYNC_DELAY=<substr>,<ms>
 */
#define _GNU_SOURCE
#include <dlfcn.h>
#include <stdio.h>
#include <stdlib.h>
#include <string.h>
#include <unistd.h>
#include <errno.h>
#include <signal.h>
#include <dirent.h>
#include <pthread.h>
#include <time.h>
#include <sys/types.h>
#include <sys/syscall.h>
#include <stdarg.h>
#include <fcntl.h>

static pthread_mutex_t lock = PTHREAD_MUTEX_INITIALIZER;
static int rename_count;

static long tid(void)
{
	return syscall(SYS_gettid);
}

static void trace(const char* fmt, ...)
{
	const char* path = getenv("SHIM_LOG");
	char buf[4600];
	int n;
	va_list ap;
	struct timespec ts;
	int f;
	static int (*real_open)(const char*, int, ...);
	if (!path)
		return;
	clock_gettime(CLOCK_MONOTONIC, &ts);
	n = snprintf(buf, sizeof(buf), "%ld.%06ld %ld ", (long)ts.tv_sec, ts.tv_nsec / 1000, tid());
	va_start(ap, fmt);
	n += vsnprintf(buf + n, sizeof(buf) - n, fmt, ap);
	va_end(ap);
	if (n > (int)sizeof(buf) - 1)
		n = sizeof(buf) - 1;
	if (!real_open)
		real_open = dlsym(RTLD_NEXT, "open");
	f = real_open(path, O_WRONLY | O_APPEND | O_CREAT, 0644);
	if (f >= 0) {
		ssize_t r = write(f, buf, n);
		(void)r;
		close(f);
	}
}

static const char* fdpath(int fd, char* buf, size_t size)
{
	char link[64];
	ssize_t n;
	snprintf(link, sizeof(link), "/proc/self/fd/%d", fd);
	n = readlink(link, buf, size - 1);
	if (n < 0)
		n = 0;
	buf[n] = 0;
	return buf;
}

static void jitter(void)
{
	const char* e = getenv("SHIM_JITTER_US");
	static __thread unsigned seed;
	long max;
	struct timespec ts;
	if (!e)
		return;
	max = atol(e);
	if (max <= 0)
		return;
	if (!seed)
		seed = (unsigned)syscall(SYS_gettid) * 2654435761u + (unsigned)time(0) + (unsigned)getpid();
	ts.tv_sec = 0;
	ts.tv_nsec = (rand_r(&seed) % max) * 1000L;
	if (rand_r(&seed) % 3 == 0)
		nanosleep(&ts, 0);
}

static void msleep(long ms)
{
	struct timespec ts;
	ts.tv_sec = ms / 1000;
	ts.tv_nsec = (ms % 1000) * 1000000L;
	while (nanosleep(&ts, &ts) != 0 && errno == EINTR)
		;
}

/* search in env 'name' an entry "substr,off,val" matching path and off; return 1 and the val */
static int rule3(const char* name, const char* path, long long off, long* val)
{
	const char* e = getenv(name);
	char tmp[4096];
	char* save;
	char* tok;
	if (!e || !*e)
		return 0;
	snprintf(tmp, sizeof(tmp), "%s", e);
	for (tok = strtok_r(tmp, ";", &save); tok; tok = strtok_r(0, ";", &save)) {
		char sub[1024];
		long long o;
		long v;
		if (sscanf(tok, "%1023[^,],%lld,%ld", sub, &o, &v) != 3)
			continue;
		if (!strstr(path, sub))
			continue;
		if (o != -1 && o != off)
			continue;
		*val = v;
		return 1;
	}
	return 0;
}

static int rule2(const char* name, const char* path, long* val)
{
	const char* e = getenv(name);
	char tmp[4096];
	char* save;
	char* tok;
	if (!e || !*e)
		return 0;
	snprintf(tmp, sizeof(tmp), "%s", e);
	for (tok = strtok_r(tmp, ";", &save); tok; tok = strtok_r(0, ";", &save)) {
		char sub[1024];
		long v;
		if (sscanf(tok, "%1023[^,],%ld", sub, &v) != 2)
			continue;
		if (!strstr(path, sub))
			continue;
		*val = v;
		return 1;
	}
	return 0;
}

ssize_t pwrite(int fd, const void* buf, size_t count, off_t offset)
{
	static ssize_t (*real)(int, const void*, size_t, off_t);
	char path[1024];
	long v;
	ssize_t r;
	if (!real)
		real = dlsym(RTLD_NEXT, "pwrite");
	fdpath(fd, path, sizeof(path));
	jitter();
	if (rule3("SHIM_PWRITE_DELAY", path, offset, &v)) {
		trace("pwrite-delay %s off=%lld ms=%ld\n", path, (long long)offset, v);
		msleep(v);
	}
	if (rule3("SHIM_PWRITE_FAIL", path, offset, &v)) {
		trace("pwrite-FAIL %s off=%lld errno=%ld\n", path, (long long)offset, v);
		errno = v;
		return -1;
	}
	r = real(fd, buf, count, offset);
	trace("pwrite %s off=%lld len=%zu ret=%zd\n", path, (long long)offset, count, r);
	return r;
}

ssize_t pread(int fd, void* buf, size_t count, off_t offset)
{
	static ssize_t (*real)(int, void*, size_t, off_t);
	char path[1024];
	long v;
	ssize_t r;
	if (!real)
		real = dlsym(RTLD_NEXT, "pread");
	fdpath(fd, path, sizeof(path));
	jitter();
	if (rule3("SHIM_PREAD_DELAY", path, offset, &v)) {
		trace("pread-delay %s off=%lld ms=%ld\n", path, (long long)offset, v);
		msleep(v);
	}
	if (rule3("SHIM_PREAD_FAIL", path, offset, &v)) {
		trace("pread-FAIL %s off=%lld errno=%ld\n", path, (long long)offset, v);
		errno = v;
		return -1;
	}
	r = real(fd, buf, count, offset);
	trace("pread %s off=%lld len=%zu ret=%zd\n", path, (long long)offset, count, r);
	return r;
}

int fsync(int fd)
{
	static int (*real)(int);
	char path[1024];
	long v;
	int r;
	if (!real)
		real = dlsym(RTLD_NEXT, "fsync");
	fdpath(fd, path, sizeof(path));
	if (rule2("SHIM_FSYNC_DELAY", path, &v))
		msleep(v);
	r = real(fd);
	trace("fsync %s ret=%d\n", path, r);
	return r;
}

int rename(const char* from, const char* to)
{
	static int (*real)(const char*, const char*);
	long v;
	if (!real)
		real = dlsym(RTLD_NEXT, "rename");
	if (rule2("SHIM_RENAME_KILL", to, &v)) {
		int n;
		pthread_mutex_lock(&lock);
		n = ++rename_count;
		pthread_mutex_unlock(&lock);
		if (n == v) {
			int r = real(from, to);
			trace("rename %s -> %s ret=%d then KILL\n", from, to, r);
			kill(getpid(), SIGKILL);
			for (;;)
				pause();
		}
	}
	trace("rename %s -> %s\n", from, to);
	return real(from, to);
}

DIR* opendir(const char* name)
{
	static DIR* (*real)(const char*);
	long v;
	if (!real)
		real = dlsym(RTLD_NEXT, "opendir");
	if (rule2("SHIM_DIR_DELAY", name, &v)) {
		trace("opendir-delay %s ms=%ld\n", name, v);
		msleep(v);
	}
	trace("opendir %s\n", name);
	return real(name);
}

int open(const char* path, int flags, ...)
{
	static int (*real)(const char*, int, ...);
	long v;
	mode_t mode = 0;
	if (!real)
		real = dlsym(RTLD_NEXT, "open");
	if (flags & (O_CREAT | O_TMPFILE)) {
		va_list ap;
		va_start(ap, flags);
		mode = va_arg(ap, mode_t);
		va_end(ap);
	}
	if (rule2("SHIM_OPEN_DELAY", path, &v))
		msleep(v);
	if (rule2("SHIM_OPEN_FAIL", path, &v)) {
		trace("open-FAIL %s errno=%ld\n", path, v);
		errno = v;
		return -1;
	}
	return real(path, flags, mode);
}
