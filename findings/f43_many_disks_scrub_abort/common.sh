# common helpers for the demos; sourced by every demo.sh
# usage in demo: . "$(dirname "$0")/common.sh" ; needs $1 = snapraid binary

SNAP=$(readlink -f "${1:?usage: demo.sh /path/to/snapraid}")
HERE=$(cd "$(dirname "$0")" && pwd)
TMP=$(mktemp -d "${TMPDIR:-/tmp}/hc13demo.XXXXXX")
trap 'rm -rf "$TMP"' EXIT
export BLKID_FILE="$TMP/blkid.tab"

# build the fault/delay injection shim (only changes timing / return values of libc calls)
SHIM="$TMP/shim.so"
gcc -O1 -shared -fPIC -o "$SHIM" "$HERE/shim.c" -ldl -lpthread || { echo "cannot build shim"; exit 2; }

# mkarray <root> <ndisk> <nparity>
mkarray() {
	local R=$1 ND=$2 NP=$3 i
	rm -rf "$R"; mkdir -p "$R"
	echo "blocksize 1" > "$R/conf"
	local names=(parity 2-parity 3-parity 4-parity 5-parity 6-parity)
	for ((i=0;i<NP;i++)); do
		mkdir -p "$R/p$i"
		echo "${names[$i]} $R/p$i/parity" >> "$R/conf"
	done
	mkdir -p "$R/c"
	echo "content $R/c/content" >> "$R/conf"
	for ((i=1;i<=ND;i++)); do
		mkdir -p "$R/d$i"
		echo "data d$i $R/d$i" >> "$R/conf"
		echo "content $R/d$i/content" >> "$R/conf"
	done
}

# deterministic pseudo random file: mkfile <path> <bytes> <seed>
mkfile() {
	mkdir -p "$(dirname "$1")"
	openssl enc -aes-128-ctr -pass pass:"$3" -nosalt -md sha256 </dev/zero 2>/dev/null | head -c "$2" > "$1"
}

# sr <root> args... : run snapraid on the array
sr() {
	local R=$1; shift
	timeout 120 "$SNAP" -c "$R/conf" --test-skip-device --test-skip-self --test-force-order-alpha "$@"
}

cacheopt() { [ "$1" = def ] && echo "" || echo "--test-io-cache=$1"; }
