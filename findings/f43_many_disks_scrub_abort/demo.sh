#!/bin/bash
# C13 / scrub (and test-dry) with 256 or more reader threads (data disks + parity levels >= 256, e.g. 250 + 6)
# aborts or hangs in threaded mode, while the single-threaded run completes
# exit 0 = property holds, 1 = violated, 2 = setup problem
. "$(dirname "$0")/common.sh"
ulimit -n 4096 2>/dev/null

violated=0

build() { # build <root> <ndisk>
	local R=$1 n=$2 i
	mkarray $R $n 6
	for ((i=1;i<=n;i++)); do mkfile $R/d$i/f 2048 k$i; done
	sr $R --test-io-cache=1 sync > $R/out 2>&1 || { echo "setup problem: sync failed"; tail -3 $R/out; exit 2; }
}

try() { # try <root> <label> <cache> <command...>
	local R=$1 label=$2 cache=$3; shift 3
	timeout 60 "$SNAP" -c $R/conf --test-skip-device --test-skip-self $(cacheopt $cache) "$@" > $R/out 2>&1
	RC=$?
	local why=""
	[ $RC = 134 ] && why="(abort: $(grep -o 'Assertion.*' $R/out | head -1))"
	[ $RC = 124 ] && why="(hang: killed by timeout after 60 s)"
	echo "$label cache=$cache '$*': exit=$RC $why"
}

echo "--- 249 data disks + 6 parities = 255 readers (reference)"
build $TMP/a 249
try $TMP/a "249+6" 1 scrub -p full;   [ $RC = 0 ] || { echo "setup problem"; exit 2; }
try $TMP/a "249+6" def scrub -p full; [ $RC = 0 ] || violated=1

echo "--- 250 data disks + 6 parities = 256 readers"
build $TMP/a 250
try $TMP/a "250+6" 1 scrub -p full;   [ $RC = 0 ] || { echo "setup problem: single-threaded scrub failed"; exit 2; }
try $TMP/a "250+6" 3 scrub -p full;   [ $RC = 0 ] || violated=1
try $TMP/a "250+6" def scrub -p full; [ $RC = 0 ] || violated=1
try $TMP/a "250+6" def test-dry;      [ $RC = 0 ] || violated=1

if [ $violated = 1 ]; then
	echo "VIOLATED: scrub does not complete with worker threads for a supported number of disks/parities"
	exit 1
fi
echo "HOLDS: scrub completes for every cache depth"
exit 0
