#!/bin/bash
# demo.sh SNAPRAID_BINARY
# A file with 2^32 or more blocks (blocksize 1 KiB -> a 4 TiB sparse file) is accepted by
# a "successful" sync, but its block count is silently truncated to 32 bits, only the first
# few KiB are hashed/protected, and the content file written by that sync cannot be loaded
# any more: diff, list, check, sync, fix all abort.
# exit 0 = property holds (or the file is refused loudly), 1 = violated, 2 = cannot set up
SNAP=${1:?usage: demo.sh /path/to/snapraid}
T=$(mktemp -d "${TMPDIR:-/tmp}/gc11-huge.XXXXXX") || exit 2
trap 'rm -rf "$T"' EXIT
mkdir -p $T/d1 $T/d2 $T/par $T/c1 $T/c2
cat > $T/conf <<EOC
blocksize 1
parity $T/par/parity
content $T/c1/content
content $T/c2/content
data d1 $T/d1
data d2 $T/d2
EOC
OPTS="-c $T/conf --test-skip-device --test-skip-self"
echo hello > $T/d2/small
# 4 TiB + 1029 bytes, sparse: 2^32 + 2 blocks of 1 KiB
if ! truncate -s $((4*1024*1024*1024*1024 + 1029)) $T/d1/huge 2>/dev/null; then
	echo "SETUP: this file-system cannot hold a 4 TiB sparse file"; exit 2
fi
# some real data far beyond the first two blocks
printf 'PAYLOAD' | dd of=$T/d1/huge bs=1 seek=1048576 conv=notrunc 2>/dev/null

timeout 120 $SNAP $OPTS sync > $T/sync.out 2>&1; rc=$?
echo "sync exit code: $rc"
if [ $rc -eq 124 ]; then echo "sync is really reading the 4 TiB (no truncation): not violated here"; exit 0; fi
if [ $rc -ne 0 ]; then echo "sync refused / failed loudly:"; tail -3 $T/sync.out; exit 0; fi
grep -a "accessed in" $T/sync.out | tail -1

bad=0
timeout 120 $SNAP $OPTS diff > $T/diff.out 2>&1; rc=$?
echo "diff exit code after the successful sync: $rc (expected 0)"; [ $rc -ne 0 ] && { bad=1; grep -a -m3 "Error decoding\|inconsistency\|too big" $T/diff.out; }
timeout 120 $SNAP $OPTS list > $T/list.out 2>&1; rc=$?
echo "list exit code: $rc (expected 0)"; [ $rc -ne 0 ] && bad=1
timeout 120 $SNAP $OPTS check > $T/check.out 2>&1; rc=$?
echo "check exit code: $rc (expected 0)"; [ $rc -ne 0 ] && bad=1
if [ $bad -ne 0 ]; then echo "VIOLATED: sync succeeded but left an unusable array state"; exit 1; fi
echo "property holds"; exit 0
