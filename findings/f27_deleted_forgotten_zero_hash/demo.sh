#!/bin/bash
# usage: demo.sh /path/to/snapraid
# exit 0 = property holds, exit 1 = property violated, exit 2 = the scenario could not be set up
SR=${1:?usage: demo.sh /path/to/snapraid}
SR=$(readlink -f "$SR")
TOP=$(mktemp -d /tmp/hc05demo.XXXXXX)
trap 'rm -rf "$TOP"' EXIT
. "$(dirname "$0")/prelude.sh"
T="$TOP/a"

# 2 data disks, 2 parities. Only plain commands: sync, sync, sync (one stripe skipped), fix.
mkconf 2 2
rnd "$T/d1/K1" 1024
rnd "$T/d2/K2" 1024
rnd "$T/d2/A" 1024      # position 1 of d2, nothing of d1 in that stripe
rnd "$T/d2/Z" 1024      # position 2 of d2, keeps the parity long enough
sr sync > "$T/sync1.log" 2>&1 || setup_fail "sync 1 failed"

# A is deleted and the array is synced, completely and without errors.
# The stripe of A now has no file: sync does not touch its parity (it still holds A)
# and the content file forgets the DELETED block: the position is recorded as EMPTY
rm "$T/d2/A"
sr sync > "$T/sync2.log" 2>&1 || setup_fail "sync 2 failed"

# a new file B is created, scan gives it the position of A: CHG block with the ZERO past hash
rnd "$T/d2/B" 1024
cp -p "$T/d2/B" "$T/B.ref"
# B is not readable while the sync runs: its stripe is skipped
sr sync --test-run "mv $T/d2/B $T/B.away" > "$T/sync3.log" 2>&1
mv "$T/B.away" "$T/d2/B"
grep -q "Missing file" "$T/sync3.log" || setup_fail "the sync did not skip the stripe"

# the loss
cp -p "$T/d2/B" "$T/B.copy"
rm "$T/d2/B"
sr fix -l "$T/fix.log" > "$T/fix.out" 2>&1
rc=$?
fixsays "$T/fix.out"
verdict "$T/d2/B" "$T/B.ref" $rc
