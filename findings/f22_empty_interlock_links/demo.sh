#!/bin/bash
# C14 / empty-disk clause: an unchanged symlink or hardlink on the disk disarms the
# "all files missing or rewritten" interlock.
# usage: demo.sh /path/to/snapraid     exit 0 = property holds, 1 = violated, 2 = setup problem
SR=${1:?usage: demo.sh /path/to/snapraid}
T=$(mktemp -d "${TMPDIR:-/tmp}/c14-links.XXXXXX")
trap 'rm -rf "$T"' EXIT
OPT="--test-skip-device --test-skip-self"
bad=0

setup() { # setup <name> ; builds a synced 2-disk array in $R, d1 holds a, sub/b, c
	R=$T/$1; mkdir -p $R/p $R/c $R/d1/sub $R/d2
	cat > $R/conf <<E
blocksize 1
parity $R/p/parity
content $R/c/content
content $R/d2/content
data d1 $R/d1
data d2 $R/d2
E
	head -c 3000 /dev/urandom > $R/d1/a; head -c 1024 /dev/urandom > $R/d1/sub/b; head -c 1 /dev/urandom > $R/d1/c
	head -c 5000 /dev/urandom > $R/d2/x; head -c 1025 /dev/urandom > $R/d2/y
}
snapshot() { (cd $R && sha256sum p/parity c/content d2/content); }
run() { # run <label> : expects a refusal that changes nothing
	snapshot > $R/before
	timeout 60 $SR -c $R/conf $OPT sync > $R/log 2>&1; rc=$?
	snapshot > $R/after
	if [ $rc -ne 0 ] && cmp -s $R/before $R/after; then
		echo "  $1: refused (rc=$rc), content/parity unchanged   -> holds"
	else
		echo "  $1: rc=$rc, $(grep -c 'are now missing or have been rewritten' $R/log) interlock message(s), content/parity $(cmp -s $R/before $R/after && echo unchanged || echo CHANGED)   -> VIOLATED"
		bad=1
	fi
}
rewrite_all() { sleep 0.05; for f in a sub/b c; do head -c 2000 /dev/urandom > $R/d1/$f; done; }

echo "control (no link on the disk):"
setup ctl;  timeout 60 $SR -c $R/conf $OPT sync > /dev/null 2>&1 || exit 2
rewrite_all; run "all 3 files of d1 rewritten"

echo "with one unchanged symlink on d1:"
setup sym1; ln -s a $R/d1/lnk; timeout 60 $SR -c $R/conf $OPT sync > /dev/null 2>&1 || exit 2
rewrite_all; run "all 3 files of d1 rewritten"
setup sym2; ln -s a $R/d1/lnk; timeout 60 $SR -c $R/conf $OPT sync > /dev/null 2>&1 || exit 2
rm -rf $R/d1/a $R/d1/sub $R/d1/c; run "all 3 files of d1 missing  "

echo "with one hardlink on d1 (hl -> a), rewritten in place:"
setup hard; ln $R/d1/a $R/d1/hl; timeout 60 $SR -c $R/conf $OPT sync > /dev/null 2>&1 || exit 2
rewrite_all; run "all 3 files of d1 rewritten"

exit $bad
