#!/bin/bash
# usage: demo.sh /path/to/snapraid
# exit 0 = first-match rule order is honoured, 1 = violated
SR=${1:?usage: demo.sh /path/to/snapraid}
T=$(mktemp -d /tmp/hc18-prune.XXXXXX)
trap 'rm -rf "$T"' EXIT
bad=0

scan() { # $1 = case dir ; prints the sorted list of paths snapraid would put in the array
	timeout 60 "$SR" -c $1/conf --test-skip-device --test-skip-self -l $1/log diff > $1/out 2>&1
	grep '^scan:add:d1:' $1/log | sed 's/^scan:add:d1://' | sort
}
mkconf() {
	mkdir -p $1/d1 $1/par $1/cnt
	printf 'blocksize 1\nparity %s/par/parity\ncontent %s/cnt/content\ndata d1 %s/d1\n' $1 $1 $1 > $1/conf
}

# ---- case A: rooted dir rules --------------------------------------------
A=$T/A; mkconf $A
mkdir -p $A/d1/a/b $A/d1/c
echo 1 > $A/d1/a/b/f     # first matching rule: "include /a/b/"  -> documented result: included
echo 2 > $A/d1/a/g       # first matching rule: "exclude /a/"    -> excluded
echo 3 > $A/d1/c/h       # no match, last rule is an exclude     -> included
printf 'include /a/b/\nexclude /a/\n' >> $A/conf
got=$(scan $A | tr '\n' ' ')
exp="a/b/f c/h "
echo "case A rules: include /a/b/ ; exclude /a/"
echo "  expected in array: $exp"
echo "  snapraid takes   : $got"
[ "$got" = "$exp" ] || bad=1

# ---- case B: name rules ----------------------------------------------------
B=$T/B; mkconf $B
mkdir -p $B/d1/tmp $B/d1/doc
echo 1 > $B/d1/tmp/keep.txt   # first matching rule: "include *.txt" -> included
echo 2 > $B/d1/tmp/junk.bin   # first matching rule: "exclude tmp/"  -> excluded
echo 3 > $B/d1/doc/x.bin      # no match, last rule is an exclude    -> included
printf 'include *.txt\nexclude tmp/\n' >> $B/conf
got=$(scan $B | tr '\n' ' ')
exp="doc/x.bin tmp/keep.txt "
echo "case B rules: include *.txt ; exclude tmp/"
echo "  expected in array: $exp"
echo "  snapraid takes   : $got"
[ "$got" = "$exp" ] || bad=1

[ $bad = 0 ] && echo "OK: first matching rule decides" || echo "VIOLATION: an earlier include rule is overridden by a later exclude rule on a parent directory"
exit $bad
