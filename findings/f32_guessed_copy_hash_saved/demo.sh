#!/bin/bash
# C19: a provisional "copy" hash that was never verified (or was verified to be WRONG)
# is saved in the content file and later used by 'fix' and 'dup' as if it were the
# recorded hash of the file: 'fix' overwrites the different file with the data of its
# assumed source, 'dup' lists the two different files as duplicates.
#
# usage: demo.sh /path/to/snapraid
# exit 0 = property holds, exit 1 = violated, exit 2 = setup problem
SR=${1:?usage: demo.sh /path/to/snapraid}
SR=$(readlink -f "$SR")
T=$(mktemp -d /tmp/c19-provisional.XXXXXX) || exit 2
trap 'rm -rf "$T"' EXIT
STAMP='2020-01-02 03:04:05.123456789'

mkfile() { # path size seed
python3 - "$1" "$2" "$3" <<'PY'
import sys,random
p,s,seed=sys.argv[1],int(sys.argv[2]),sys.argv[3]
r=random.Random(seed)
open(p,'wb').write(bytes(r.getrandbits(8) for _ in range(s)))
PY
}
sr() { timeout 120 "$SR" -c "$T/conf" --test-skip-device --test-skip-self "$@"; }

build() { # fresh array: A synced on d1, o.bin synced on d2, then decoy B added on d2
	rm -rf "$T"/*; mkdir -p "$T"/par "$T"/cont "$T"/d1/dir "$T"/d2/x "$T"/d3
	cat > "$T/conf" <<CONF
blocksize 1
parity $T/par/p1
content $T/cont/c1
content $T/cont/c2
data d1 $T/d1
data d2 $T/d2
data d3 $T/d3
CONF
	mkfile "$T/d1/dir/a.bin" 3000 ORIGINAL; touch -d "$STAMP" "$T/d1/dir/a.bin"
	mkfile "$T/d2/o.bin" 5000 OTHER
	sr sync > "$T/sync0.log" 2>&1 || { echo "SETUP: first sync failed"; cat "$T/sync0.log"; exit 2; }
	# the decoy: same name, size and time-stamp, different content, not protected by any parity
	mkfile "$T/d2/x/a.bin" 3000 DECOY; touch -d "$STAMP" "$T/d2/x/a.bin"
	cmp -s "$T/d1/dir/a.bin" "$T/d2/x/a.bin" && { echo "SETUP: decoy equal to the original"; exit 2; }
	DECOY_SUM=$(md5sum < "$T/d2/x/a.bin")
	ORIG_SUM=$(md5sum < "$T/d1/dir/a.bin")
}

verdict=0
judge() { # $1 = scenario name
	local name=$1
	sr dup > "$T/dup.log" 2>&1
	if grep -q "x/a.bin = dir/a.bin\|dir/a.bin = x/a.bin" "$T/dup.log"; then
		echo "[$name] VIOLATION: 'dup' lists the two DIFFERENT files as duplicates (hash never matched the data):"
		grep " = " "$T/dup.log" | sed 's/^/    /'
		verdict=1
	else
		echo "[$name] dup: ok, decoy not listed as duplicate"
	fi
	sr check > "$T/check.log" 2>&1
	grep -E "recoverable|errors" "$T/check.log" | sed "s/^/    check: /"
	sr fix > "$T/fix.log" 2>&1
	echo "    fix exit=$? : $(grep -E 'recovered|unrecoverable|Everything' "$T/fix.log" | tr -s ' ' | tr '\n' ';')"
	local now
	if [ -f "$T/d2/x/a.bin" ]; then now=$(md5sum < "$T/d2/x/a.bin"); else now=missing; fi
	if [ "$now" = "$DECOY_SUM" ]; then
		echo "[$name] fix: ok, the decoy still has its own content"
	elif [ "$now" = "$ORIG_SUM" ]; then
		echo "[$name] VIOLATION: 'fix' replaced the content of d2/x/a.bin with the content of d1/dir/a.bin"
		echo "    (the hash used to 'verify' the replacement is the provisional one copied at scan time)"
		verdict=1
	else
		# renamed to .unrecoverable or similar: data not destroyed, but report it
		echo "[$name] fix: decoy not at its path any more ($(ls "$T/d2/x")), content preserved? $(md5sum "$T"/d2/x/* | grep -c "${DECOY_SUM%% *}")"
		[ "$(md5sum "$T"/d2/x/* | grep -c "${DECOY_SUM%% *}")" = 1 ] || verdict=1
	fi
}

echo "### Scenario 1: sync detects the mismatch, refuses the stripes, saves the content file"
build
sr sync -l "$T/sync1.tag" > "$T/sync1.log" 2>&1
echo "    sync exit=$? ; $(grep -c 'Unexpected data change' "$T/sync1.tag") blocks reported as 'Unexpected data change'"
judge "mismatch-detected"

echo "### Scenario 2: sync stops before reaching the copy (here: sync -B 5, exit 0, no error at all)"
build
sr sync -B 5 > "$T/sync2.log" 2>&1
echo "    sync -B 5 exit=$?"
judge "sync-interrupted"

if [ $verdict = 0 ]; then echo "RESULT: property holds"; else echo "RESULT: property VIOLATED"; fi
exit $verdict
