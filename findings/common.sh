# common helpers for the demos; source with: . "$(dirname "$0")/../common.sh"
SNAP=${1:?usage: demo.sh /path/to/snapraid}
SNAP=$(readlink -f "$SNAP")
T=$(mktemp -d "${TMPDIR:-/tmp}/snapdemo.XXXXXX")
trap 'rm -rf "$T"' EXIT
# mkarray NPARITY NDISKS : conf in $T/conf, disks $T/d1.., parity $T/pL/par, content $T/c/content + $T/d1/snapraid.content
mkarray() {
	local np=$1 nd=$2 l d
	local PN=(parity 2-parity 3-parity 4-parity 5-parity 6-parity)
	{
		echo "blocksize 1"
		for ((l=0;l<np;l++)); do mkdir -p $T/p$l; echo "${PN[$l]} $T/p$l/par"; done
		mkdir -p $T/c; echo "content $T/c/content"
		for ((d=1;d<=nd;d++)); do mkdir -p $T/d$d; echo "data d$d $T/d$d"; done
		echo "content $T/d1/snapraid.content"
	} > $T/conf
}
S() { "$SNAP" -c $T/conf --test-skip-device --test-skip-self $EXTRA "$@"; }
# run quietly, echo rc
Q() { S "$@" > $T/last.out 2>&1; local rc=$?; echo "snapraid $* -> rc=$rc"; return $rc; }
VIOL=0
viol() { echo "VIOLATION: $*"; VIOL=1; }
finish() { if [ $VIOL = 0 ]; then echo "property holds"; exit 0; else exit 1; fi; }
