#!/bin/bash
# C08: a parity write failing with ENOSPC (any errno other than EIO) stops sync,
# but the content file is then saved with the failing stripe recorded as synced.
# Stripe 3 fails; single-thread mode so that the run is deterministic
# (with threads the same happens whenever the error is collected before the end).
. "$(dirname "$0")/common.sh"
setup 2 1
mkfile $T/d1/a 8192; mkfile $T/d2/b 8192

snfi "pwrite,p0/par,3072,28" --test-io-cache=1 sync > $T/sync.out 2>&1; ex=$?
echo "injected: $(cat $T/fi.log 2>/dev/null)"
grep -E "Failed to grow|WARNING! Unexpected write|Stopping|Saving state" $T/sync.out
echo "sync exit status: $ex"
st=$(status_line); echo "status: $st"
bad=0
[ "$ex" -ne 0 ] || { echo "VIOLATION: sync returned 0 after a failed parity write"; bad=1; }

# is stripe 3 still seen as needing a sync?  run the next sync restricted to it
sn -S 3 -B 1 sync > $T/sync3.out 2>&1
echo "next sync of stripe 3 only: $(grep -E 'Nothing to do|Everything OK' $T/sync3.out | tr '\n' ' ')"
if grep -q "Nothing to do" $T/sync3.out && ! echo "$st" | grep -q "DANGER! In the array"; then
	echo "VIOLATION: stripe 3 is recorded as synced and it is not marked bad"; bad=1
fi

sn -e fix > $T/fix.out 2>&1
sn sync > $T/sync2.out 2>&1; echo "next full sync exit: $?"
sn check > $T/check.out 2>&1; cex=$?
echo "check exit status: $cex $(grep -E '[0-9]+ errors' $T/check.out | tr '\n' ' ')"
[ "$cex" -eq 0 ] || { echo "VIOLATION: stale parity in stripe 3 not repaired by 'fix -e' / next sync"; bad=1; }
exit $bad
