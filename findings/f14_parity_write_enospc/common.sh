# Common helpers for the C08 demos. Sourced by demo.sh.
# Needs: $1 = path of the snapraid binary.
set -u
HERE=$(cd "$(dirname "${BASH_SOURCE[0]}")" && pwd)
SNAP=$(readlink -f "${1:?usage: demo.sh /path/to/snapraid}")
T=$(mktemp -d /tmp/hc08-demo.XXXXXX)
trap 'rm -rf "$T"' EXIT
FI=$T/fi.so
gcc -O2 -shared -fPIC -o "$FI" "$HERE/fi.c" -ldl -lpthread || { echo "cannot build the shim"; exit 2; }

# setup <ndisk> <nparity>
setup() {
	local nd=$1 lv=$2 l d
	local pn=(parity 2-parity 3-parity 4-parity 5-parity 6-parity)
	echo "blocksize 1" > $T/conf
	for ((l=0;l<lv;l++)); do mkdir -p $T/p$l; echo "${pn[$l]} $T/p$l/par" >> $T/conf; done
	mkdir -p $T/c; echo "content $T/c/content" >> $T/conf
	for ((d=1;d<=nd;d++)); do mkdir -p $T/d$d; echo "data d$d $T/d$d" >> $T/conf; echo "content $T/d$d/content" >> $T/conf; done
	OPTS="-c $T/conf --test-skip-device --test-skip-self"
}
mkfile() { head -c $2 /dev/urandom > $1; }
sn() { timeout 120 $SNAP $OPTS "$@"; }
# snfi "<rules>" args... : run snapraid with the fault injection shim
snfi() { local r=$1; shift; FI_RULES="$r" FI_LOG=$T/fi.log LD_PRELOAD=$FI timeout 120 $SNAP $OPTS "$@"; }
status_line() { sn status 2>&1 | grep -E "No error detected|DANGER! In the array|NOT fully synced" | tr '\n' ' '; }
