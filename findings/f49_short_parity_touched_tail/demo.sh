#!/bin/bash
# C14 / short-parity interlock disarmed by files that only had their time-stamp touched.
# usage: demo.sh /path/to/snapraid     exit 0 = property holds, 1 = violated, 2 = setup problem
SNAP=${1:?usage: demo.sh /path/to/snapraid}
SNAP=$(readlink -f "$SNAP")
OPTS="--test-skip-device --test-skip-self --test-force-order-alpha"
T=$(mktemp -d) || exit 2
trap 'rm -rf "$T"' EXIT
mkdir -p $T/d1 $T/d2 $T/d3 $T/p $T/c
cat > $T/conf <<EOC
blocksize 1
parity $T/p/parity
content $T/c/content
content $T/d1/content
data d1 $T/d1
data d2 $T/d2
data d3 $T/d3
EOC
run() { timeout 120 "$SNAP" $OPTS -c $T/conf "$@" > $T/out.txt 2>&1; }
fp() { for f in $T/p/parity $T/c/content $T/d1/content; do
	if [ -e $f ]; then echo "$f $(stat -c %s $f) $(sha256sum < $f)"; else echo "$f MISSING"; fi; done; }

verdict=0

scenario() { # $1 = name, $2 = what to do with the parity (truncate size or "rm"), $3 = "rename": rename the tail file instead of touching it
	rm -rf $T/d1/* $T/d2/* $T/d3/* $T/p/* $T/c/*
	# d2/a0 gets position 0, then d2/b gets positions 1..6: the tail of the parity
	# (positions 3..6) only protects d2/b
	head -c 3000 /dev/urandom > $T/d1/a
	head -c 1000 /dev/urandom > $T/d2/a0
	head -c 100 /dev/urandom > $T/d3/c
	: > $T/d1/keep; : > $T/d2/keep; : > $T/d3/keep
	run sync || { echo "setup sync 1 failed"; cat $T/out.txt; exit 2; }
	head -c 5500 /dev/urandom > $T/d2/b
	run sync || { echo "setup sync 2 failed"; cat $T/out.txt; exit 2; }
	[ "$(stat -c %s $T/p/parity)" = 7168 ] || { echo "unexpected parity size"; exit 2; }

	# the parity loses its tail (or everything)
	if [ "$2" = rm ]; then
		: > $T/p/parity   # emptied (an empty file, so that the demo does not depend on sync re-creating it)
		# every non-empty file gets a new time-stamp (same data), like after a restore
		# that does not preserve the time-stamps; the empty "keep" files are untouched
		sleep 0.02; touch $T/d1/a $T/d2/a0 $T/d2/b $T/d3/c
	else
		truncate -s $2 $T/p/parity
	fi

	# control: the interlock works as long as nothing else changed
	if [ "$2" != rm ]; then
		before=$(fp)
		run sync; rc=$?
		if [ $rc = 0 ] || [ "$before" != "$(fp)" ]; then
			echo "$1: control failed: plain sync with short parity rc=$rc"; verdict=1
		fi
	fi

	# ordinary pending change: the file in the tail only gets a new time-stamp (same data)
	if [ "$3" = rename ]; then
		# (where inodes are not usable to detect moves, a rename is a remove plus an add)
		mv $T/d2/b $T/d2/renamed
	elif [ "$2" != rm ]; then
		sleep 0.02
		touch $T/d2/b
	fi

	before=$(fp)
	run sync; rc=$?
	after=$(fp)
	if [ $rc != 0 ] && [ "$before" = "$after" ]; then
		echo "$1: OK sync refused (rc=$rc) and nothing was altered"
		# and the override has to work
		run sync -F || { echo "$1: sync -F failed"; verdict=1; }
		run check || { echo "$1: check after sync -F failed"; verdict=1; }
		return
	fi
	echo "$1: VIOLATION: sync with a short parity file proceeded without --force-full (rc=$rc)"
	grep -i "smaller\|only\|Everything OK" $T/out.txt
	# show the damage: the array is declared synced but the parity is not valid
	run check; crc=$?
	echo "$1: 'snapraid check' right after the accepted sync: rc=$crc: $(grep -i 'errors' $T/out.txt | tr -s ' \n' ' ')"
	verdict=1
}

scenario "tail-truncated(3 of 7 blocks left)" 3072
scenario "parity-file-emptied" rm
scenario "tail-truncated, tail file renamed" 3072 rename

exit $verdict
