#!/bin/bash
# demo.sh <path-to-snapraid>
# exit 0 = property holds, exit 1 = violated:
# touch rewrites the whole access time-stamp (seconds included) of the files it touches
SNAP=${1:?usage: demo.sh /path/to/snapraid}
SNAP=$(readlink -f "$SNAP")
T=$(mktemp -d /tmp/gc12-touch.XXXXXX)
trap 'rm -rf "$T"' EXIT
S() { timeout 120 "$SNAP" -c "$T/conf" --test-skip-device --test-skip-self "$@"; }
mkdir -p $T/d1 $T/d2 $T/p $T/c
cat > $T/conf <<EOC
blocksize 1
parity $T/p/parity
content $T/c/content
content $T/p/content
data d1 $T/d1
data d2 $T/d2
EOC
echo hello > $T/d1/zero
echo hello > $T/d1/nonzero
echo other > $T/d2/o
touch -m -d '2020-01-01 00:00:00' $T/d1/zero        # mtime with a zero sub-second part
S sync > $T/log 2>&1 || { cat $T/log; echo "setup sync failed"; exit 2; }
# access times: one with a non zero sub-second part, nothing that touch is documented to change
touch -a -d '2023-05-05 05:05:05.500000000' $T/d1/zero $T/d1/nonzero
fmt='%n  mtime=%y (%Y)  atime=%x (%X)'
echo "before:"; stat -c "$fmt" $T/d1/zero $T/d1/nonzero | sed "s#$T/##"
A0=$(stat -c %X $T/d1/zero); M0=$(stat -c %Y $T/d1/zero); N0=$(stat -c '%X %x %Y %y' $T/d1/nonzero)
S touch > $T/out.log 2>&1 || { cat $T/out.log; echo "touch failed"; exit 2; }
grep "^touch" $T/out.log
echo "after:"; stat -c "$fmt" $T/d1/zero $T/d1/nonzero | sed "s#$T/##"
A1=$(stat -c %X $T/d1/zero); M1=$(stat -c %Y $T/d1/zero); N1=$(stat -c '%X %x %Y %y' $T/d1/nonzero)
bad=0
[ "$M0" = "$M1" ] || { echo "VIOLATION: the seconds of the modification time changed"; bad=1; }
[ "$N0" = "$N1" ] || { echo "VIOLATION: a file with a non zero sub-second mtime was modified"; bad=1; }
if [ "$A0" != "$A1" ]; then
	echo "VIOLATION: the access time of d1/zero went from $(date -u -d @$A0 +%F_%T) to $(date -u -d @$A1 +%F_%T): touch overwrote a time-stamp whose sub-second part was not zero, seconds included"
	bad=1
fi
[ $bad = 0 ] && echo "OK: property holds"
exit $bad
