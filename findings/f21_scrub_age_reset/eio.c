/* LD_PRELOAD shim: pread() on a file whose path contains $EIO_MATCH fails
 * with EIO (like an unreadable sector); time() can be shifted by
 * $FAKE_TIME_OFFSET seconds to age a sync. */
#define _GNU_SOURCE
#include <dlfcn.h>
#include <errno.h>
#include <stdio.h>
#include <stdlib.h>
#include <string.h>
#include <time.h>
#include <unistd.h>

static int match(int fd)
{
	const char* e = getenv("EIO_MATCH");
	char link[64];
	char path[4096];
	ssize_t n;

	if (!e || !*e)
		return 0;
	snprintf(link, sizeof(link), "/proc/self/fd/%d", fd);
	n = readlink(link, path, sizeof(path) - 1);
	if (n < 0)
		return 0;
	path[n] = 0;
	return strstr(path, e) != 0;
}

ssize_t pread(int fd, void* buf, size_t count, off_t offset)
{
	static ssize_t (*real)(int, void*, size_t, off_t);
	if (!real)
		real = dlsym(RTLD_NEXT, "pread");
	if (match(fd)) {
		errno = EIO;
		return -1;
	}
	return real(fd, buf, count, offset);
}

ssize_t pread64(int fd, void* buf, size_t count, off_t offset)
{
	static ssize_t (*real)(int, void*, size_t, off_t);
	if (!real)
		real = dlsym(RTLD_NEXT, "pread64");
	if (match(fd)) {
		errno = EIO;
		return -1;
	}
	return real(fd, buf, count, offset);
}

time_t time(time_t* t)
{
	static time_t (*real)(time_t*);
	const char* e = getenv("FAKE_TIME_OFFSET");
	time_t r;
	if (!real)
		real = dlsym(RTLD_NEXT, "time");
	r = real(0);
	if (e)
		r += atol(e);
	if (t)
		*t = r;
	return r;
}
