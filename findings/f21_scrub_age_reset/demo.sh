#!/bin/sh
# usage: demo.sh /path/to/snapraid
# exit 0 = property holds, 1 = violated, 2 = setup problem
SNAP=${1:?usage: demo.sh /path/to/snapraid}
HERE=$(cd "$(dirname "$0")" && pwd)
T=$(mktemp -d)
trap 'rm -rf "$T"' EXIT

cc -shared -fPIC -O2 -o "$T/eio.so" "$HERE/eio.c" -ldl || exit 2

mkdir -p $T/par $T/c1 $T/c2 $T/d1 $T/d2
cat > $T/conf <<EOC
blocksize 1
parity $T/par/parity
content $T/c1/content
content $T/c2/content
data d1 $T/d1
data d2 $T/d2
EOC
RUN="$SNAP -c $T/conf --test-skip-device --test-skip-self"

# 1. five stripes synced "30 days ago" (time() shifted back by the shim)
head -c 5000 /dev/urandom > $T/d1/old
head -c 3000 /dev/urandom > $T/d2/old2
FAKE_TIME_OFFSET=-2592000 LD_PRELOAD=$T/eio.so $RUN sync > $T/sync1.out 2>&1 || { cat $T/sync1.out; exit 2; }

$RUN status -l $T/status1.log > $T/status1.out 2>&1
OLD=$(sed -n 's/^info_time:\([0-9]*\):5:new$/\1/p' $T/status1.log)
[ -n "$OLD" ] || { echo "setup: cannot find the time of the 5 old stripes"; cat $T/status1.log; exit 2; }
echo "before: 5 stripes with sync time $OLD ($(grep 'oldest block' $T/status1.out))"

# 2. two new files; the first one sits on an unreadable sector (pread -> EIO),
#    the second one is fine.  sync marks the 2 stripes of the first file bad,
#    syncs the 4 stripes of the second one, and saves the content file.
head -c 2000 /dev/urandom > $T/d1/p_unreadable
head -c 4000 /dev/urandom > $T/d1/q_fine
EIO_MATCH=p_unreadable LD_PRELOAD=$T/eio.so $RUN sync > $T/sync2.out 2>&1
grep -q "marked as bad" $T/sync2.out || { echo "setup: the injected EIO was not hit"; cat $T/sync2.out; exit 2; }

# 3. what does the saved content file say about the 5 old stripes?
$RUN status -l $T/status2.log > $T/status2.out 2>&1
echo "after : $(grep '^info_time:' $T/status2.log | tr '\n' ' ')"
echo "after : $(grep 'oldest block' $T/status2.out)"
cmp -s $T/c1/content $T/c2/content || { echo "content copies differ"; exit 1; }

if grep -q "^info_time:$OLD:5:new$" $T/status2.log; then
	echo "OK: the 5 untouched stripes still carry their sync time $OLD"
	exit 0
else
	echo "VIOLATION: the sync time $OLD of the 5 untouched stripes is gone from the saved state"
	exit 1
fi
