#!/bin/bash
# demo.sh <snapraid binary>
# exit 0: property holds, exit 1: property violated, exit 2: setup problem
SNAP=${1:?usage: demo.sh /path/to/snapraid}
T=$(mktemp -d)
trap 'rm -rf "$T"' EXIT
mkdir -p $T/p $T/c $T/d1
cat > $T/conf <<EOC
blocksize 1
parity $T/p/par.0,$T/p/par.1
content $T/c/content
content $T/c/content2
data d1 $T/d1
EOC
# --test-parity-limit=4000 gives split 0 room for 6 blocks of 1 KiB (limit 6341 bytes)
OPT="-c $T/conf --test-skip-device --test-skip-self --test-skip-lock --test-parity-limit=4000"
S() { timeout 120 $SNAP $OPT "$@"; }
rnd() { head -c $2 /dev/urandom > $1; }

# positions 0..4 = x, 5 = h (last stripe of split 0), 6..7 = y (split 1)
rnd $T/d1/x 5120; S sync > $T/log1 2>&1 || { cat $T/log1; echo "setup: sync1 failed"; exit 2; }
rnd $T/d1/h 1024; S sync > $T/log2 2>&1 || { cat $T/log2; echo "setup: sync2 failed"; exit 2; }
rnd $T/d1/y 2048; S sync > $T/log3 2>&1 || { cat $T/log3; echo "setup: sync3 failed"; exit 2; }
# delete h: the last stripe of split 0 becomes an unused position
rm $T/d1/h;       S sync > $T/log4 2>&1 || { cat $T/log4; echo "setup: sync4 failed"; exit 2; }
s0=$(stat -c %s $T/p/par.0); s1=$(stat -c %s $T/p/par.1)
echo "recorded split sizes after sync: par.0=$s0 par.1=$s1"
[ "$s0" = 6144 ] && [ "$s1" = 2048 ] || { echo "setup: unexpected layout"; exit 2; }
S check > $T/logc0 2>&1 || { cat $T/logc0; echo "setup: check before damage failed"; exit 2; }

# the disk of the first split is lost
rm $T/p/par.0
S fix > $T/logf 2>&1; rf=$?
echo "fix exit code $rf: $(grep -i 'errors\|Everything' $T/logf | tr -s ' ' | tr '\n' ';')"
n0=$(stat -c %s $T/p/par.0); n1=$(stat -c %s $T/p/par.1)
echo "split sizes after fix:           par.0=$n0 par.1=$n1"

bad=0
[ $rf -eq 0 ] || { echo "fix failed"; bad=1; }
[ "$n0" = "$s0" ] || { echo "VIOLATION: fix left split 0 at $n0 bytes, the recorded size is $s0"; bad=1; }
S check > $T/logc 2>&1 || { echo "VIOLATION: check after a successful fix reports: $(grep -i 'Missing\|errors' $T/logc | tr -s ' ' | tr '\n' ';')"; bad=1; }
rnd $T/d1/z 1024
S sync > $T/logs 2>&1 || { echo "VIOLATION: sync after a successful fix refuses: $(grep -i 'WARNING\|DANGER' $T/logs | tr '\n' ';')"; bad=1; }
[ $bad -eq 0 ] && echo "OK: property holds"
exit $bad
