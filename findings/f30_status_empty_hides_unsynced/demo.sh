#!/bin/bash
# usage: demo.sh /path/to/snapraid
# exit 0 = property holds, 1 = violated
SNAP=$(readlink -f "${1:?usage: demo.sh <snapraid binary>}")
HERE=$(dirname "$(readlink -f "$0")")
T=$(mktemp -d /tmp/hc20-status.XXXXXX)
SH=$(mktemp -d /tmp/hc20-status-shim.XXXXXX)
trap 'rm -rf "$T" "$SH"' EXIT
mk() {
	rm -rf $T/*; mkdir -p $T/d1 $T/d2 $T/p $T/c
	cat > $T/conf <<EOC
blocksize 1
parity $T/p/parity
content $T/c/content
content $T/d1/content
data d1 $T/d1
data d2 $T/d2
EOC
	head -c 3000 /dev/urandom > $T/d1/GONE1      # 3 blocks
	head -c 2000 /dev/urandom > $T/d2/GONE2      # 2 blocks
}
S() { timeout 60 "$SNAP" -c $T/conf --test-skip-device --test-skip-self "$@"; }

check() { # $1 = label
	S status -l $T/status.log > $T/status.out 2>&1
	echo "--- [$1] status prints:"; sed -n '/SnapRAID status report/,$p' $T/status.out
	uns=$(sed -n 's/^summary:has_unsynced://p' $T/status.log)
	echo "--- [$1] status log tag: summary:has_unsynced:$uns"
	if [ "${uns:-0}" -gt 0 ] && ! grep -q "NOT fully synced" $T/status.out; then
		echo "VIOLATION [$1]: $uns stripes are recorded as unsynced, but the status report does not say the array is not fully synced (it says: '$(grep -i 'empty\|No sync' $T/status.out)')"
		return 1
	fi
	return 0
}

bad=0

# variant A: a first sync that is started past the used blocks (recovery option -S);
# the files are recorded, no stripe is synced.
mk
S sync -S 3 > $T/sync.out 2>&1 || { cat $T/sync.out; echo "sync failed"; exit 2; }
check "sync -S 3" || bad=1

# variant B (needs gcc): a plain first 'sync' in which every data file vanishes after
# the scan ("Missing file ... You cannot modify data disk during a sync"); sync goes on,
# saves the content file with all the blocks still unsynced.
if command -v gcc > /dev/null && gcc -shared -fPIC -o $SH/shim.so "$HERE/vanish_shim.c" -ldl 2>/dev/null; then
	mk
	FAIL_OPEN_SUBSTR=GONE FAIL_OPEN_SKIP=2 LD_PRELOAD=$SH/shim.so S sync > $T/sync.out 2>&1
	if [ -f $T/c/content ]; then
		check "files vanished during the first sync" || bad=1
	else
		echo "(variant B: content not written, skipped)"
	fi
fi

[ $bad = 0 ] && echo "OK: property holds"
exit $bad
