#define _GNU_SOURCE
#include <dlfcn.h>
#include <errno.h>
#include <fcntl.h>
#include <stdarg.h>
#include <stdlib.h>
#include <string.h>
static int cnt; static int hit(const char* p){ const char* s=getenv("FAIL_OPEN_SUBSTR"); const char* k=getenv("FAIL_OPEN_SKIP"); if(!(s && p && strstr(p,s))) return 0; return ++cnt > (k?atoi(k):0); }
static int en(void){ const char* e=getenv("FAIL_ERRNO"); return e?atoi(e):ENOENT; }
int open(const char* p,int fl,...){ static int(*r)(const char*,int,...); if(!r) r=dlsym(RTLD_NEXT,"open"); va_list a; va_start(a,fl); int m=va_arg(a,int); va_end(a); if(hit(p)){errno=en();return -1;} return r(p,fl,m);}
int open64(const char* p,int fl,...){ static int(*r)(const char*,int,...); if(!r) r=dlsym(RTLD_NEXT,"open64"); va_list a; va_start(a,fl); int m=va_arg(a,int); va_end(a); if(hit(p)){errno=en();return -1;} return r(p,fl,m);}
