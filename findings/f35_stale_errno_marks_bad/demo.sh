#!/bin/bash
# Property C15: scrub "marks bad only stripes with silent or I/O errors, never
# marks differences caused by files changed since the last sync".
#
# One unreadable sector in file d1/a1 (injected EIO) makes scrub also mark as
# bad the stripes of d1/a3, a file that was merely truncated after the last
# sync and that had no input/output error at all.
#
# usage: demo.sh /path/to/snapraid      exit 0 = property holds, 1 = violated
SNAP=${1:?usage: demo.sh /path/to/snapraid}
SNAP=$(readlink -f "$SNAP")
HERE=$(cd "$(dirname "$0")" && pwd)
T=$(mktemp -d)
trap 'rm -rf "$T"' EXIT

gcc -shared -fPIC -O2 -o "$T/eio.so" "$HERE/eio_shim.c" -ldl || { echo "cannot build the shim"; exit 2; }

mkdir -p $T/d1 $T/d2 $T/p $T/c
cat > $T/conf <<EOC
blocksize 1
parity $T/p/parity
content $T/c/content
content $T/d1/content
data d1 $T/d1
data d2 $T/d2
EOC
S="timeout 120 $SNAP -c $T/conf --test-skip-device --test-skip-self"
# two syncs, so that a1 gets the first stripes of d1 and a3 the following ones
head -c 3072 /dev/urandom > $T/d1/a1
head -c 12288 /dev/urandom > $T/d2/b
$S sync > $T/sync.out 2>&1 || { echo "sync failed"; cat $T/sync.out; exit 2; }
head -c 3072 /dev/urandom > $T/d1/a2
$S sync > $T/sync.out 2>&1 || { echo "sync failed"; cat $T/sync.out; exit 2; }
head -c 3072 /dev/urandom > $T/d1/a3
$S sync > $T/sync.out 2>&1 || { echo "sync failed"; cat $T/sync.out; exit 2; }

# a3 is changed after the sync: truncated inside its first block (new size, new mtime)
sleep 1
truncate -s 1000 $T/d1/a3

# control run without any fault: the truncated file gives plain "file errors", nothing is marked
cp $T/c/content $T/content.sav
$S scrub -p full -l $T/ctl.log > $T/ctl.out 2>&1
$S status -l $T/ctl.status > /dev/null 2>&1
ctl_bad=$(grep '^summary:has_bad:' $T/ctl.status | cut -d: -f3)
echo "control (no fault injected): bad blocks after scrub = $ctl_bad"
grep -E '^error:' $T/ctl.log | sed 's/^/   /'
cp $T/content.sav $T/c/content; cp $T/content.sav $T/d1/content

# faulty run: a single unreadable sector in the first block of a1, same disk as a3
EIO_PATH=/d1/a1 EIO_OFF=0 LD_PRELOAD=$T/eio.so $S scrub -p full -l $T/scrub.log > $T/scrub.out 2>&1
$S status --gui -l $T/status.log > /dev/null 2>&1

echo "run with one EIO injected in d1/a1 at offset 0:"
grep -E '^error:' $T/scrub.log | sed 's/^/   /'
grep -E 'io errors|file errors|data errors' $T/scrub.out | sed 's/^/   /'
echo "blocks marked bad afterwards:"
grep -E '^block:.*:bad:' $T/status.log | sed 's/^/   /'

# stripes of a3 (the file changed since the sync) as listed by the scrub log
a3_blocks=$(grep -E '^error:[0-9]+:d1:a3:' $T/scrub.log | cut -d: -f2)
viol=0
for b in $a3_blocks; do
	if grep -q -E "^block:$b:[0-9]+:[^:]*:[^:]*:bad:" $T/status.log; then
		echo "VIOLATION: stripe $b is marked bad although its only problem is d1/a3, a file changed since the last sync (no I/O error on it)"
		viol=1
	fi
done
if grep -q -E '^error:[0-9]+:d1:a3: Read EIO error' $T/scrub.log; then
	echo "VIOLATION: the truncated file d1/a3 is reported as 'Read EIO error' although no read of it failed with EIO"
	viol=1
fi
if [ "$ctl_bad" != "0" ]; then
	echo "VIOLATION: control run marked $ctl_bad blocks bad"
	viol=1
fi
[ $viol = 0 ] && echo "OK: only the stripe with the real input/output error is marked bad"
exit $viol
