/*
 * LD_PRELOAD shim: pread()/pread64() fail with EIO when the descriptor refers
 * to a path containing $EIO_PATH and the offset is $EIO_OFF (or any offset if
 * EIO_OFF is unset or negative). Simulates one unreadable sector.
 */
#define _GNU_SOURCE
#include <stdlib.h>
#include <stdio.h>
#include <string.h>
#include <errno.h>
#include <unistd.h>
#include <dlfcn.h>
#include <sys/types.h>

static int match(int fd, off_t off)
{
	const char* p = getenv("EIO_PATH");
	const char* o = getenv("EIO_OFF");
	char link[64], path[4096];
	ssize_t n;

	if (!p)
		return 0;
	snprintf(link, sizeof(link), "/proc/self/fd/%d", fd);
	n = readlink(link, path, sizeof(path) - 1);
	if (n < 0)
		return 0;
	path[n] = 0;
	if (!strstr(path, p))
		return 0;
	if (o && strtoll(o, 0, 10) >= 0 && strtoll(o, 0, 10) != off)
		return 0;
	return 1;
}

ssize_t pread(int fd, void* buf, size_t count, off_t off)
{
	static ssize_t (*real)(int, void*, size_t, off_t);
	if (!real)
		real = dlsym(RTLD_NEXT, "pread");
	if (match(fd, off)) {
		errno = EIO;
		return -1;
	}
	return real(fd, buf, count, off);
}

ssize_t pread64(int fd, void* buf, size_t count, off_t off)
{
	static ssize_t (*real)(int, void*, size_t, off_t);
	if (!real)
		real = dlsym(RTLD_NEXT, "pread64");
	if (match(fd, off)) {
		errno = EIO;
		return -1;
	}
	return real(fd, buf, count, off);
}
