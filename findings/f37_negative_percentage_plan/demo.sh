#!/bin/bash
# Property C15: "for a percentage, the oldest stripes first, no more than that
# share of the array and none younger than the age limit".
#
# The numeric argument of -p is parsed with strtoul() into an int and only
# checked for "> 100": a negative (or wrapped) number is accepted and aliases
# the internal plan constants: -4 is SCRUB_FULL, -3 SCRUB_NEW, -2 SCRUB_BAD.
# 'snapraid -p -4 scrub' verifies 100% of an array synced seconds before,
# ignoring both the share and the 10 days age limit.
#
# usage: demo.sh /path/to/snapraid      exit 0 = property holds, 1 = violated
SNAP=${1:?usage: demo.sh /path/to/snapraid}
SNAP=$(readlink -f "$SNAP")
T=$(mktemp -d)
trap 'rm -rf "$T"' EXIT

mkdir -p $T/d1 $T/d2 $T/p $T/c
cat > $T/conf <<EOC
blocksize 1
parity $T/p/parity
content $T/c/content
data d1 $T/d1
data d2 $T/d2
EOC
head -c 12288 /dev/urandom > $T/d1/a
head -c 12288 /dev/urandom > $T/d2/b

S="timeout 120 $SNAP -c $T/conf --test-skip-device --test-skip-self"
$S sync > $T/sync.out 2>&1 || { echo "sync failed"; cat $T/sync.out; exit 2; }

unscrubbed() { $S status -l $T/status.log > /dev/null 2>&1; grep '^summary:has_unscrubbed:' $T/status.log | cut -d: -f3; }

before=$(unscrubbed)
echo "stripes just synced and never scrubbed: $before (all younger than the default 10 days age limit)"

viol=0
for p in -4 4294967292; do
	cp $T/c/content $T/content.sav
	$S scrub -p $p -l $T/scrub.log > $T/scrub.out 2>&1
	rc=$?
	after=$(unscrubbed)
	echo "scrub -p $p: exit status $rc, never-scrubbed stripes afterwards: $after"
	grep -E 'Invalid|completed|Nothing to do' $T/scrub.out | sed 's/^/   /'
	if [ "$after" != "$before" ]; then
		echo "VIOLATION: 'scrub -p $p' verified $((before - after)) of $before stripes, all younger than the age limit"
		viol=1
	fi
	cp $T/content.sav $T/c/content
done
[ $viol = 0 ] && echo "OK: an out of range percentage does not scrub young stripes"
exit $viol
