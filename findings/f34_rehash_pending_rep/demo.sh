#!/bin/bash
# C04: "On an array without damage none of these commands reports an error"
# (incl. a hash migration in progress).
# A 'rehash' scheduled while copied-but-not-yet-synced blocks (REP) are recorded in
# stripes that have no info yet makes check / check -a report data errors (and
# unrecoverable errors) on files that are bit-for-bit intact.
# exit 0 = property holds, 1 = violated, 2 = setup problem
SNAP=${1:?usage: demo.sh /path/to/snapraid}
SNAP=$(readlink -f "$SNAP")
T=$(mktemp -d)
trap 'rm -rf "$T"' EXIT
mkdir -p $T/p $T/c $T/d1 $T/d2
cat > $T/conf <<E
blocksize 1
parity $T/p/parity
content $T/c/content
content $T/d1/content
data d1 $T/d1
data d2 $T/d2
E
S() { timeout 120 "$SNAP" -c $T/conf --test-skip-device --test-skip-self --test-force-order-alpha "$@"; }

head -c 3000 /dev/urandom > $T/d1/a
head -c 3000 /dev/urandom > $T/d1/z
head -c 6000 /dev/urandom > $T/d2/g      # 6 blocks: d2 is the longest disk

# the array starts with a hash that is not the best one, so that 'rehash' is possible
FORCE=--test-force-murmur3
S sync $FORCE > $T/o1 2>&1 || { cat $T/o1; echo "setup: first sync failed"; exit 2; }
S status -l $T/status0.log > /dev/null 2>&1
if [ "$(grep '^summary:hash:' $T/status0.log)" = "summary:hash:$(grep '^summary:best_hash:' $T/status0.log | cut -d: -f3)" ]; then
	# murmur3 is already the best hash of this platform: start from spooky2 instead
	rm -f $T/c/content $T/d1/content $T/p/parity
	FORCE=--test-force-spooky2
	S sync $FORCE > $T/o1 2>&1 || { cat $T/o1; echo "setup: first sync failed"; exit 2; }
fi

# copy a synced file to the other disk keeping name, size and time-stamp: the scan
# recognises it as a copy and records its blocks as REP blocks carrying the hash of
# the source; they land at positions 6..8, beyond every stripe synced so far
cp -p $T/d1/z $T/d2/z

# a sync that stops early (same state as a sync interrupted with Ctrl+C):
# only stripe 0 is processed, the content file is saved with the REP blocks pending
S sync -B 1 > $T/o2 2>&1 || { cat $T/o2; echo "setup: partial sync failed"; exit 2; }

# nothing is damaged: check is clean before the rehash
S check -l $T/check0.log > $T/o3 2>&1
rc0=$?
n0=$(grep -c -E '^(error|parity_error|unrecoverable):' $T/check0.log)
echo "before rehash: check rc=$rc0 error lines=$n0"
[ $rc0 -eq 0 ] && [ $n0 -eq 0 ] || { cat $T/o3; echo "setup: check not clean before rehash"; exit 2; }

S rehash > $T/o4 2>&1
if [ $? -ne 0 ]; then
	cat $T/o4; echo "setup: rehash refused (if it now requires a synced array, the defect is repaired)"; exit 0
fi

# still nothing is damaged (cmp proves it)
cmp $T/d1/z $T/d2/z || { echo "setup: files differ?"; exit 2; }

bad=0
S check -l $T/check1.log > $T/o5 2>&1; rc1=$?
n1=$(grep -c -E '^(error|parity_error|unrecoverable):' $T/check1.log)
echo "after rehash: check rc=$rc1 error lines=$n1"
grep -E '^(error|parity_error|unrecoverable):' $T/check1.log
[ $rc1 -eq 0 ] && [ $n1 -eq 0 ] || bad=1

S check -a -l $T/check2.log > $T/o6 2>&1; rc2=$?
n2=$(grep -c -E '^(error|parity_error|unrecoverable):' $T/check2.log)
echo "after rehash: check -a rc=$rc2 error lines=$n2"
[ $rc2 -eq 0 ] && [ $n2 -eq 0 ] || bad=1

# side effect (informative): the pending sync can no more be completed
S sync -l $T/sync.log > $T/o7 2>&1; rc3=$?
echo "after rehash: sync rc=$rc3"; grep -E '^error:' $T/sync.log

# ---- scenario B: same state reached through an interrupted 'sync -h' (pre-hash) ----
rm -rf $T/p/* $T/c/* $T/d1/* $T/d2/*
head -c 3000 /dev/urandom > $T/d1/a
head -c 2000 /dev/urandom > $T/d2/g
S sync $FORCE > $T/b1 2>&1 || { cat $T/b1; echo "setup B: first sync failed"; exit 2; }
head -c 5000 /dev/urandom > $T/d1/new1
head -c 6000 /dev/urandom > $T/d2/new2
# the hashing phase stores REP blocks and saves the content; the final save is skipped
S sync -h --test-kill-after-sync > $T/b2 2>&1 || { cat $T/b2; echo "setup B: sync -h failed"; exit 2; }
S check -l $T/bcheck0.log > $T/b3 2>&1; rcb0=$?
nb0=$(grep -c -E '^(error|parity_error|unrecoverable):' $T/bcheck0.log)
echo "B before rehash: check rc=$rcb0 error lines=$nb0"
if S rehash > $T/b4 2>&1; then
	S check -l $T/bcheck1.log > $T/b5 2>&1; rcb1=$?
	nb1=$(grep -c -E '^(error|parity_error|unrecoverable):' $T/bcheck1.log)
	echo "B after rehash: check rc=$rcb1 error lines=$nb1"
	if [ $rcb0 -eq 0 ] && [ $nb0 -eq 0 ]; then
		[ $rcb1 -eq 0 ] && [ $nb1 -eq 0 ] || bad=1
	fi
else
	echo "B: rehash refused on the unsynced array"
fi

if [ $bad -ne 0 ]; then
	echo "VIOLATED: check reports data errors on an undamaged array"
	exit 1
fi
echo "property holds"
exit 0
