#!/bin/sh
# F8 replay: autosave records stripes as synced while their parity writes are still queued in the writer threads
SNAP=${1:-/repo/snapraid}
R=/tmp/f8/a; rm -rf $R; mkdir -p $R/d1 $R/d2 $R/p $R/c
cat > $R/conf <<EOF
blocksize 1
parity $R/p/parity
content $R/c/content
content $R/d1/content
data d1 $R/d1
data d2 $R/d2
EOF
S="$SNAP -c $R/conf --test-skip-device --test-skip-self"
for i in 1 2 3 4; do head -c 40000 /dev/urandom > $R/d1/f$i; head -c 39000 /dev/urandom > $R/d2/g$i; done
# the first content save happens before the loop (rename #1,#2); the forced autosave at block 20 gives rename #3,#4
LD_PRELOAD=/tmp/f8/shim8.so SHIM_DELAY_MS=100 SHIM_KILL_AFTER_RENAME=4 $S --test-force-autosave-at=20 sync > /tmp/f8/sync.log 2>&1
echo "sync rc=$? (137 = killed)"
ls -la $R/p/parity | awk '{print "parity size", $5}'
$S status 2>&1 | grep -iE "synced|not synced|bad|No error" | head -3
$S sync > /tmp/f8/sync2.log 2>&1; echo "second sync rc=$?"
$S check > /tmp/f8/check.log 2>&1; echo "check rc=$?"; grep -E "errors|OK" /tmp/f8/check.log | head -3
