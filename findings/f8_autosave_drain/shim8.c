#define _GNU_SOURCE
#include <dlfcn.h>
#include <errno.h>
#include <signal.h>
#include <stdio.h>
#include <stdlib.h>
#include <string.h>
#include <unistd.h>
#include <sys/types.h>
/* delay every pwrite to a parity file; kill the process right after the N-th rename of a content file */
static int is_parity(int fd) { char p[64], t[4096]; ssize_t n; snprintf(p, sizeof p, "/proc/self/fd/%d", fd); n = readlink(p, t, sizeof t - 1); if (n <= 0) return 0; t[n] = 0; return strstr(t, "parity") != 0; }
ssize_t pwrite(int fd, const void* buf, size_t n, off_t off) {
	static ssize_t (*real)(int, const void*, size_t, off_t);
	if (!real) real = dlsym(RTLD_NEXT, "pwrite");
	if (is_parity(fd)) { const char* dl = getenv("SHIM_DELAY_MS"); if (dl) usleep(atoi(dl) * 1000); }
	return real(fd, buf, n, off);
}
ssize_t pwrite64(int fd, const void* buf, size_t n, off_t off) { return pwrite(fd, buf, n, off); }
int rename(const char* a, const char* b) {
	static int (*real)(const char*, const char*); static int count = 0;
	if (!real) real = dlsym(RTLD_NEXT, "rename");
	int r = real(a, b);
	if (strstr(b, "content")) { const char* k = getenv("SHIM_KILL_AFTER_RENAME"); if (k && ++count == atoi(k)) { fprintf(stderr, "[shim] SIGKILL after rename #%d (%s)\n", count, b); kill(getpid(), SIGKILL); } }
	return r;
}
