#!/bin/bash
# a symbolic link planted at the path of a recorded empty file / empty directory / hard link is
# accepted by check and fix as if it were the recorded object (stat() instead of lstat())
. "$(dirname "$0")/../common.sh"
mkarray 1 2
head -c 3000 /dev/urandom > $T/d1/x
ln $T/d1/x $T/d1/hl
: > $T/d1/e; touch -d '2005-05-05 05:05:05.5 UTC' $T/d1/e
mkdir $T/d1/ed
head -c 3000 /dev/urandom > $T/d2/other
Q sync || exit 2
# damage on one disk only: three recorded objects are replaced by symbolic links
rm $T/d1/e;  : > $T/d1/other_empty; ln -s other_empty $T/d1/e
rmdir $T/d1/ed; ln -s . $T/d1/ed
rm $T/d1/hl; ln -s x $T/d1/hl
Q fix || viol "fix failed"
tail -3 $T/last.out
[ -f $T/d1/e ] && [ ! -L $T/d1/e ] || viol "recorded empty file d1/e is still a symbolic link after fix"
[ "$(stat -c %.9Y $T/d1/e)" = "1115269505.500000000" ] || viol "mtime of empty file d1/e not restored"
[ -d $T/d1/ed ] && [ ! -L $T/d1/ed ] || viol "recorded empty directory d1/ed is still a symbolic link after fix"
[ ! -L $T/d1/hl ] && [ "$(stat -c %i $T/d1/hl)" = "$(stat -c %i $T/d1/x)" ] || viol "recorded hard link d1/hl is still a symbolic link after fix"
Q check || viol "check reports errors after fix"
finish
