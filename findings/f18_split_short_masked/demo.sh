#!/bin/bash
# C14 / short-parity clause: a parity split file that lost its tail is not
# refused when pending deletions free at least as many blocks in a LATER split.
# usage: demo.sh /path/to/snapraid     exit 0 = property holds, 1 = violated, 2 = setup problem
SR=${1:?usage: demo.sh /path/to/snapraid}
T=$(mktemp -d "${TMPDIR:-/tmp}/c14-split.XXXXXX")
trap 'rm -rf "$T"' EXIT
OPT="--test-skip-device --test-skip-self --test-force-order-alpha"
mkdir -p $T/p $T/c $T/d1 $T/d2
cat > $T/conf <<E
blocksize 1
parity $T/p/a.par,$T/p/b.par
content $T/c/content
content $T/d1/content
data d1 $T/d1
data d2 $T/d2
E
for d in d1 d2; do
	head -c 8192 /dev/urandom > $T/$d/A    # parity blocks 0..7
	head -c 2048 /dev/urandom > $T/$d/B    # parity blocks 8..9
	head -c 2048 /dev/urandom > $T/$d/C    # parity blocks 10..11
done
snapshot() { (cd $T && sha256sum p/a.par p/b.par c/content d1/content; stat -c '%n %s' p/a.par p/b.par); }

# first sync: the (test) size limit makes split 0 stop at 10 blocks, the rest goes to split 1
timeout 60 $SR -c $T/conf $OPT --test-parity-limit=6000 sync > $T/log1 2>&1 || { cat $T/log1; echo "SETUP: first sync failed"; exit 2; }
SA=$(stat -c %s $T/p/a.par); SB=$(stat -c %s $T/p/b.par)
echo "after first sync: a.par=$SA bytes (blocks 0..9)  b.par=$SB bytes (blocks 10..11)"
[ "$SA" = 10240 ] && [ "$SB" = 2048 ] || { echo "SETUP: unexpected split layout"; exit 2; }
timeout 60 $SR -c $T/conf $OPT check > $T/logc0 2>&1 || { echo "SETUP: check after first sync failed"; exit 2; }

# the first split loses its last two blocks (parity of blocks 8..9, still needed by file B)
cp $T/p/a.par $T/a.par.orig
truncate -s 8192 $T/p/a.par

# control: without pending changes the interlock does fire
timeout 60 $SR -c $T/conf $OPT sync > $T/log2 2>&1; rc=$?
echo "control sync (no pending change): rc=$rc  [$(grep -c 'smaller than expected' $T/log2) x 'smaller than expected']"

# ordinary pending change: the files mapped to the LAST split are deleted
rm $T/d1/C $T/d2/C
snapshot > $T/before
timeout 60 $SR -c $T/conf $OPT sync > $T/log3 2>&1; rc=$?
snapshot > $T/after
echo "sync with a.par 2 blocks short + C deleted: rc=$rc"
grep -E "WARNING! The|DANGER|Everything OK" $T/log3 | sed 's/^/    /'
if [ $rc -ne 0 ]; then
	if cmp -s $T/before $T/after; then
		echo "HOLDS: sync refused and content/parity are unchanged"; exit 0
	fi
	echo "VIOLATED: sync refused but content/parity files changed"; diff $T/before $T/after; exit 1
fi
echo "sync did NOT refuse although a.par has 8192 bytes and the content file records 10240"
stat -c '    %n %s' $T/p/a.par $T/p/b.par
echo "    bytes 8192..10239 of a.par are now: $(tail -c 2048 $T/p/a.par | tr -d '\0' | wc -c) non-zero bytes (original had $(tail -c 2048 $T/a.par.orig | tr -d '\0' | wc -c))"
timeout 60 $SR -c $T/conf $OPT check > $T/logc1 2>&1; crc=$?
echo "check after the 'successful' sync: rc=$crc"
grep -E "errors|WARNING! There" $T/logc1 | sed 's/^/    /'
# consequence: file B (blocks 8..9) is no longer recoverable from this parity
cp $T/d1/B $T/B.orig; rm $T/d1/B
timeout 60 $SR -c $T/conf $OPT fix -f B -d d1 > $T/logf 2>&1; frc=$?
if cmp -s $T/d1/B $T/B.orig 2>/dev/null; then echo "    (fix of d1/B: rc=$frc, recovered correctly)"; else echo "    fix of deleted d1/B: rc=$frc, file NOT recovered ($(ls $T/d1 | tr '\n' ' '))"; fi
echo "VIOLATED: sync proceeded on a parity file smaller than recorded and left blocks 8..9 with bogus (zero) parity marked as valid"
exit 1
