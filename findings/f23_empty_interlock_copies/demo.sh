#!/bin/bash
# C14 / empty-disk clause: when every file of a disk is overwritten by a file that
# snapraid recognises as a "copy" of a file on another disk (same name, size, mtime),
# the overwrites are counted as copies, not as changes, and the interlock stays silent.
# usage: demo.sh /path/to/snapraid     exit 0 = property holds, 1 = violated, 2 = setup problem
SR=${1:?usage: demo.sh /path/to/snapraid}
T=$(mktemp -d "${TMPDIR:-/tmp}/c14-copy.XXXXXX")
trap 'rm -rf "$T"' EXIT
OPT="--test-skip-device --test-skip-self"
bad=0
setup() {
	R=$T/$1; mkdir -p $R/p $R/c $R/d1/s $R/d2/s $R/d3
	cat > $R/conf <<E
blocksize 1
parity $R/p/parity
content $R/c/content
content $R/d3/content
data d1 $R/d1
data d2 $R/d2
data d3 $R/d3
E
	# d1 and d2 use the same layout (same relative names) with different content
	head -c 3000 /dev/urandom > $R/d1/a;   head -c 1500 /dev/urandom > $R/d1/s/b
	sleep 0.05
	head -c 5000 /dev/urandom > $R/d2/a;   head -c 2500 /dev/urandom > $R/d2/s/b
	head -c 1000 /dev/urandom > $R/d3/z
	timeout 60 $SR -c $R/conf $OPT sync > /dev/null 2>&1 || { echo "SETUP: first sync failed"; exit 2; }
}
snapshot() { (cd $R && sha256sum p/parity c/content d3/content); }
run() {
	snapshot > $R/before
	timeout 60 $SR -c $R/conf $OPT "${@:2}" sync > $R/log 2>&1; rc=$?
	snapshot > $R/after
	if [ $rc -ne 0 ] && cmp -s $R/before $R/after; then
		echo "  $1: refused (rc=$rc), content/parity unchanged   -> holds"
	else
		echo "  $1: rc=$rc, $(grep -c 'are now missing or have been rewritten' $R/log) interlock message(s), content/parity $(cmp -s $R/before $R/after && echo unchanged || echo CHANGED)   -> VIOLATED"
		bad=1
	fi
}

echo "control: every file of d1 overwritten, copy detection disabled (-N):"
setup ctl
cp -p $R/d2/a $R/d1/a; cp -p $R/d2/s/b $R/d1/s/b
run "d1 fully overwritten with d2's files, sync -N" -N

echo "same overwrite, default options:"
setup cpy
cp -p $R/d2/a $R/d1/a; cp -p $R/d2/s/b $R/d1/s/b      # what d1's directory shows when d2's file-system is what is mounted there
timeout 60 $SR -c $R/conf $OPT diff 2>/dev/null | grep -E "^(copy|update|remove|add) " | sed 's/^/    diff: /'
run "d1 fully overwritten with d2's files, sync   "

exit $bad
