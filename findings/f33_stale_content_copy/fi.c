/* Fault-injection shim for the content save sequence.
 * FI_OP   = open|write|fsync|close|rename|remove
 * FI_N    = 1-based index of the matching call (on paths containing FI_PATH, default "content") 
 * FI_ACT  = kill_before | kill_after | fail | corrupt | short
 * FI_ERRNO= errno for fail (default EIO)
 * FI_LOG  = file where every matching call is logged (optional)
 */
#define _GNU_SOURCE
#include <dlfcn.h>
#include <stdio.h>
#include <stdlib.h>
#include <string.h>
#include <stdarg.h>
#include <fcntl.h>
#include <unistd.h>
#include <signal.h>
#include <errno.h>
#include <sys/types.h>

static int tracked[4096];
static int counter;
static const char* pat(void) { const char* p = getenv("FI_PATH"); return p ? p : "content"; }
static int match_path(const char* p) { return p && strstr(p, pat()) && !strstr(p, ".lock"); }
static void lg(const char* op, const char* what, int n)
{
	const char* l = getenv("FI_LOG");
	if (!l) return;
	int (*ropen)(const char*, int, ...) = dlsym(RTLD_NEXT, "open");
	ssize_t (*rwrite)(int, const void*, size_t) = dlsym(RTLD_NEXT, "write");
	int (*rclose)(int) = dlsym(RTLD_NEXT, "close");
	int fd = ropen(l, O_WRONLY | O_CREAT | O_APPEND, 0644);
	char b[5000]; int k = snprintf(b, sizeof(b), "%d %s %s\n", n, op, what);
	rwrite(fd, b, k); rclose(fd);
}
/* return action: 0 none, 1 kill_before, 2 kill_after, 3 fail, 4 corrupt, 5 short */
static int hit(const char* op, const char* what)
{
	const char* o = getenv("FI_OP");
	if (!o || strcmp(o, op) != 0) { lg(op, what, 0); return 0; }
	int n = ++counter;
	lg(op, what, n);
	const char* ns = getenv("FI_N");
	if (!ns || atoi(ns) != n) return 0;
	const char* a = getenv("FI_ACT");
	if (!a) return 0;
	if (!strcmp(a, "kill_before")) { kill(getpid(), SIGKILL); }
	if (!strcmp(a, "kill_after")) return 2;
	if (!strcmp(a, "fail")) return 3;
	if (!strcmp(a, "corrupt")) return 4;
	if (!strcmp(a, "short")) return 5;
	return 0;
}
static int ferrno(void) { const char* e = getenv("FI_ERRNO"); return e ? atoi(e) : EIO; }

int open(const char* path, int flags, ...)
{
	int (*real)(const char*, int, ...) = dlsym(RTLD_NEXT, "open");
	mode_t mode = 0;
	if (flags & O_CREAT) { va_list ap; va_start(ap, flags); mode = va_arg(ap, mode_t); va_end(ap); }
	int act = 0;
	if (match_path(path) && (flags & O_ACCMODE) != O_RDONLY) act = hit("open", path);
	if (act == 3) { errno = ferrno(); return -1; }
	int fd = real(path, flags, mode);
	if (fd >= 0 && fd < 4096) tracked[fd] = match_path(path) && (flags & O_ACCMODE) != O_RDONLY;
	if (act == 2) kill(getpid(), SIGKILL);
	return fd;
}
int open64(const char* path, int flags, ...)
{
	mode_t mode = 0;
	if (flags & O_CREAT) { va_list ap; va_start(ap, flags); mode = va_arg(ap, mode_t); va_end(ap); }
	return open(path, flags, mode);
}
ssize_t write(int fd, const void* buf, size_t size)
{
	ssize_t (*real)(int, const void*, size_t) = dlsym(RTLD_NEXT, "write");
	if (fd >= 0 && fd < 4096 && tracked[fd]) {
		char w[64]; snprintf(w, sizeof(w), "fd%d size%zu", fd, size);
		int act = hit("write", w);
		if (act == 3) { errno = ferrno(); return -1; }
		if (act == 4) { char* c = malloc(size); memcpy(c, buf, size); c[size / 2] ^= 0x10; ssize_t r = real(fd, c, size); free(c); return r; }
		if (act == 5) { return real(fd, buf, size / 2); }
		ssize_t r = real(fd, buf, size);
		if (act == 2) kill(getpid(), SIGKILL);
		return r;
	}
	return real(fd, buf, size);
}
int fsync(int fd)
{
	int (*real)(int) = dlsym(RTLD_NEXT, "fsync");
	if (fd >= 0 && fd < 4096 && tracked[fd]) {
		char w[64]; snprintf(w, sizeof(w), "fd%d", fd);
		int act = hit("fsync", w);
		if (act == 3) { errno = ferrno(); return -1; }
		int r = real(fd);
		if (act == 2) kill(getpid(), SIGKILL);
		return r;
	}
	return real(fd);
}
int close(int fd)
{
	int (*real)(int) = dlsym(RTLD_NEXT, "close");
	if (fd >= 0 && fd < 4096 && tracked[fd]) {
		char w[64]; snprintf(w, sizeof(w), "fd%d", fd);
		tracked[fd] = 0;
		int act = hit("close", w);
		if (act == 3) { real(fd); errno = ferrno(); return -1; }
		int r = real(fd);
		if (act == 2) kill(getpid(), SIGKILL);
		return r;
	}
	return real(fd);
}
int rename(const char* a, const char* b)
{
	int (*real)(const char*, const char*) = dlsym(RTLD_NEXT, "rename");
	if (match_path(b)) {
		int act = hit("rename", b);
		if (act == 3) { errno = ferrno(); return -1; }
		int r = real(a, b);
		if (act == 2) kill(getpid(), SIGKILL);
		return r;
	}
	return real(a, b);
}
int remove(const char* a)
{
	int (*real)(const char*) = dlsym(RTLD_NEXT, "remove");
	if (match_path(a)) {
		int act = hit("remove", a);
		if (act == 3) { errno = ferrno(); return -1; }
		int r = real(a);
		if (act == 2) kill(getpid(), SIGKILL);
		return r;
	}
	return real(a);
}
