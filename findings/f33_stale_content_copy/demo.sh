#!/bin/bash
# demo.sh <path-to-snapraid>
# Exit 0: property holds (after a successful command all content copies are byte-identical)
# Exit 1: violated (a successful 'sync' leaves stale copies next to the current one)
# (see demo_b.sh for the bit-flipped second copy variant)
# Exit 2: the scenario could not be set up
S=$(readlink -f "${1:?usage: demo.sh /path/to/snapraid}")
HERE=$(cd "$(dirname "$0")" && pwd)
T=$(mktemp -d /tmp/hc09-stale.XXXXXX)
trap 'rm -rf "$T"' EXIT
O="--test-skip-device --test-skip-self"

gcc -shared -fPIC -O1 -o "$T/fi.so" "$HERE/fi.c" -ldl || exit 2

mkdir -p "$T"/{d1,d2,p,c1,c2,c3}
cat > "$T/conf" <<EOC
blocksize 1
parity $T/p/parity,$T/p/parityb
content $T/c1/content
content $T/c2/content
content $T/c3/content
data d1 $T/d1
data d2 $T/d2
EOC
head -c 3000 /dev/urandom > "$T/d1/a"
head -c 1500 /dev/urandom > "$T/d2/b"

"$S" -c "$T/conf" $O sync > "$T/log0" 2>&1 || { echo "setup sync failed"; cat "$T/log0"; exit 2; }
cmp -s "$T/c1/content" "$T/c2/content" && cmp -s "$T/c1/content" "$T/c3/content" || { echo "setup: copies differ"; exit 2; }

# make sure the scrub below records a different time than the sync above
sleep 2

# Step 1: a scrub that is killed inside the rename loop of state_rename_content(),
# just before the second copy is renamed (copy 1 = new, copies 2 and 3 = old)
LD_PRELOAD="$T/fi.so" FI_OP=rename FI_N=2 FI_ACT=kill_before \
	"$S" -c "$T/conf" $O scrub -p full > "$T/log1" 2>&1
echo "interrupted scrub: exit status $? (137 = killed)"

viol=0
echo "--- after the kill (allowed: each copy complete old or complete new)"
ls -l "$T"/c?/content*
md5sum "$T"/c?/content

# Step 2: a complete, successful command
"$S" -c "$T/conf" $O sync > "$T/log2" 2>&1
rc=$?
echo "--- follow-up sync: exit status $rc"
grep -i "warning.*content\|broken\|Saving state" "$T/log2"
md5sum "$T"/c?/content
if [ $rc -ne 0 ]; then
	echo "follow-up sync failed (not the scenario under test)"; cat "$T/log2"; exit 2
fi
if cmp -s "$T/c1/content" "$T/c2/content" && cmp -s "$T/c1/content" "$T/c3/content"; then
	echo "scenario A (interrupted rename loop): copies identical after successful sync"
else
	echo "VIOLATION A: 'sync' succeeded, but the content copies are not byte-identical and no warning was printed"
	viol=1
fi

exit $viol
