#!/bin/bash
# demo_b.sh <path-to-snapraid>   -- variant B: second copy damaged in one bit, same size
# Exit 0: after a successful sync all copies are byte-identical (or the damage is reported and sync fails)
# Exit 1: sync succeeds silently and leaves the damaged copy in place
# Exit 2: the scenario could not be set up
S=$(readlink -f "${1:?usage: demo_b.sh /path/to/snapraid}")
T=$(mktemp -d /tmp/hc09-staleb.XXXXXX)
trap 'rm -rf "$T"' EXIT
O="--test-skip-device --test-skip-self"
mkdir -p "$T"/{d1,d2,p,c1,c2,c3}
cat > "$T/conf" <<EOC
blocksize 1
parity $T/p/parity,$T/p/parityb
content $T/c1/content
content $T/c2/content
content $T/c3/content
data d1 $T/d1
data d2 $T/d2
EOC
head -c 3000 /dev/urandom > "$T/d1/a"
head -c 1500 /dev/urandom > "$T/d2/b"
"$S" -c "$T/conf" $O sync > "$T/log0" 2>&1 || { echo "setup sync failed"; cat "$T/log0"; exit 2; }
cmp -s "$T/c1/content" "$T/c2/content" || { echo "setup: copies differ"; exit 2; }
python3 - "$T/c2/content" <<'EOP' || exit 2
import sys
p=sys.argv[1]; d=bytearray(open(p,'rb').read()); d[len(d)//2]^=0x04; open(p,'wb').write(d)
EOP
"$S" -c "$T/conf" $O sync > "$T/log3" 2>&1
rc=$?
echo "sync with a bit-flipped second copy: exit status $rc"
grep -i "warning.*content\|broken\|damaged\|Saving state" "$T/log3"
md5sum "$T"/c?/content
if [ $rc -eq 0 ] && ! cmp -s "$T/c1/content" "$T/c2/content"; then
	echo "VIOLATION B: 'sync' succeeded and left the damaged second copy in place, without any warning"
	exit 1
fi
echo "ok"
exit 0
