#!/bin/sh
# F3 replay: sync skips a stripe because another disk's file vanished; the CHG block of the changed file keeps the hash of the NEW data
SNAP=${1:-/repo/snapraid}
R=/tmp/f4/a; rm -rf $R; mkdir -p $R/d1 $R/d2 $R/d3 $R/p $R/c
cat > $R/conf <<EOF
blocksize 1
parity $R/p/parity
2-parity $R/p/parity2
content $R/c/content
content $R/d3/content
data d1 $R/d1
data d2 $R/d2
data d3 $R/d3
EOF
S="$SNAP -c $R/conf --test-skip-device --test-skip-self"
head -c 500 /dev/urandom > $R/d1/A; head -c 1024 /dev/urandom > $R/d2/B; head -c 1024 /dev/urandom > $R/d3/C
head -c 1024 /dev/urandom > $R/d1/zA2; head -c 1024 /dev/urandom > $R/d2/zB2; head -c 1024 /dev/urandom > $R/d3/zC2
cp $R/d1/A /tmp/f4/A.old
$S sync > /tmp/f4/s1.log 2>&1 || { echo "first sync failed"; exit 2; }
# change A in place (same size), new content
sleep 1.1
head -c 1024 /dev/urandom > $R/d1/A; cp $R/d1/A /tmp/f4/A.new
# second sync: B vanishes between scan and read (test hook), so the stripe is skipped
$S --test-run "rm $R/d2/B" sync > /tmp/f4/s2.log 2>&1; echo "second sync rc=$?"
grep -E "Missing file|file errors|error" /tmp/f4/s2.log | head -4
# now lose A' as well; two failures, two parities
rm $R/d1/A
$S -l /tmp/f4/fix.tag fix > /tmp/f4/fix.log 2>&1; echo "fix rc=$?"
grep -E "recovered|unrecoverable|Everything|errors" /tmp/f4/fix.log | head -8
ls $R/d1
if [ -f $R/d1/A ]; then
  cmp -s $R/d1/A /tmp/f4/A.new && echo "A == new version (correct)"
  cmp -s $R/d1/A /tmp/f4/A.old && echo "A == OLD version but reported as recovered: VIOLATION of C05"
fi
