#!/bin/bash
# demo.sh <snapraid binary>
# exit 0: property holds, exit 1: property violated, exit 2: setup problem
SNAP=${1:?usage: demo.sh /path/to/snapraid}
T=$(mktemp -d)
trap 'rm -rf "$T"' EXIT
mkdir -p $T/p $T/c $T/d1 $T/d2
cat > $T/conf <<EOC
blocksize 1
parity $T/p/par.0,$T/p/par.1,$T/p/par.2,$T/p/par.3
content $T/c/content
content $T/c/content2
data d1 $T/d1
data d2 $T/d2
EOC
OPT="-c $T/conf --test-skip-device --test-skip-self --test-skip-lock"
S() { timeout 120 $SNAP $OPT "$@"; }
rnd() { head -c $2 /dev/urandom > $1; }
sizes() { stat -c %s $T/p/par.0 $T/p/par.1 $T/p/par.2 $T/p/par.3 | tr '\n' ' '; }

# 30 parity blocks: with --test-parity-limit=20000 split 0 takes 21 blocks, split 1 the other 9
rnd $T/d1/a 30000; rnd $T/d2/b 25000
S --test-parity-limit=20000 sync > $T/log1 2>&1 || { cat $T/log1; echo "setup: sync failed"; exit 2; }
before="$(sizes)"
echo "recorded split sizes after sync: $before"
[ "$before" = "21504 9216 0 0 " ] || { echo "setup: unexpected layout"; exit 2; }
cat $T/p/par.0 $T/p/par.1 $T/p/par.2 $T/p/par.3 > $T/good

# the disk of split 1 dies and is replaced by one with less free space:
# with --test-parity-limit=3000 split 1 has room for 4 blocks only (split 0 is not touched,
# its file already has the recorded size)
rm $T/p/par.1
S --test-parity-limit=3000 fix > $T/logf 2>&1; rf=$?
after="$(sizes)"
echo "fix exit code $rf: $(grep -i 'errors\|Everything\|Failed\|WARNING' $T/logf | tr -s ' ' | tr '\n' ';')"
echo "split sizes after fix:           $after"

if [ $rf -ne 0 ]; then
	# refusing loudly is fine: the recorded mapping cannot be restored
	echo "OK: fix refused to continue, nothing was written with another layout"
	exit 0
fi
bad=0
if [ "$after" != "$before" ]; then
	echo "VIOLATION: fix reported success but wrote the parity with split sizes ($after) that are not the recorded ones ($before)"
	bad=1
fi
S check > $T/logc 2>&1 || { echo "VIOLATION: check after a successful fix: $(grep -i 'errors' $T/logc | tr -s ' ' | tr '\n' ';')"; bad=1; }
S sync > $T/logs 2>&1 || { echo "VIOLATION: sync after a successful fix refuses: $(grep -i 'WARNING! The\|DANGER' $T/logs | tr '\n' ';')"; bad=1; }
[ $bad -eq 0 ] && echo "OK: property holds"
exit $bad
