/*
 * LD_PRELOAD shim: counts the state-changing system calls of the process and
 * kills it (SIGKILL) just before, just after, or in the middle of call number K.
 *
 * Environment:
 *  CRASH_LOG=<file>   append one line for every counted call: "<idx> <name> <detail>"
 *  CRASH_AT=<k>       index (1 based) of the call at which to die
 *  CRASH_MODE=before|after|mid   (mid = for write/pwrite do half of it and die,
 *                                 for the other calls the same as before)
 *  CRASH_MATCH=<substr> count only calls whose path (or fd path) contains substr
 *  CRASH_OPEN=1       count also open() with O_CREAT or O_TRUNC
 *
 *  DELAY_MATCH=<substr>  sleep DELAY_MS before every pwrite on a fd whose path contains substr
 *  DELAY_MS=<ms>
 *  KILL_ON_RENAME_TO=<substr> die just after the Nth (KILL_ON_RENAME_N, default 1) rename
 *                             whose destination contains substr
 */
#define _GNU_SOURCE
#include <dlfcn.h>
#include <stdio.h>
#include <stdlib.h>
#include <string.h>
#include <unistd.h>
#include <fcntl.h>
#include <stdarg.h>
#include <signal.h>
#include <pthread.h>
#include <sys/types.h>
#include <sys/stat.h>
#include <sys/syscall.h>
#include <sys/time.h>
#include <time.h>
#include <utime.h>
#include <errno.h>

static pthread_mutex_t mtx = PTHREAD_MUTEX_INITIALIZER;
static long counter = 0;
static long crash_at = -1;
static int crash_mode = 0; /* 0 before, 1 after, 2 mid */
static const char* crash_log = 0;
static const char* crash_match = 0;
static int crash_open = 0;
static const char* delay_match = 0;
static long delay_ms = 0;
static const char* kill_rename_to = 0;
static long kill_rename_n = 1;
static long kill_rename_count = 0;
static int inited = 0;

static void die(void)
{
	syscall(SYS_kill, getpid(), SIGKILL);
	while (1)
		pause();
}

static void init(void)
{
	const char* e;
	if (inited)
		return;
	inited = 1;
	e = getenv("CRASH_AT");
	if (e)
		crash_at = atol(e);
	e = getenv("CRASH_MODE");
	if (e) {
		if (strcmp(e, "after") == 0)
			crash_mode = 1;
		else if (strcmp(e, "mid") == 0)
			crash_mode = 2;
		else if (strcmp(e, "sigint") == 0)
			crash_mode = 3;
		else if (strcmp(e, "sigterm") == 0)
			crash_mode = 4;
	}
	crash_log = getenv("CRASH_LOG");
	crash_match = getenv("CRASH_MATCH");
	crash_open = getenv("CRASH_OPEN") != 0;
	delay_match = getenv("DELAY_MATCH");
	e = getenv("DELAY_MS");
	if (e)
		delay_ms = atol(e);
	kill_rename_to = getenv("KILL_ON_RENAME_TO");
	e = getenv("KILL_ON_RENAME_N");
	if (e)
		kill_rename_n = atol(e);
}

static void fdpath(int fd, char* out, size_t size)
{
	char link[64];
	ssize_t n;
	snprintf(link, sizeof(link), "/proc/self/fd/%d", fd);
	n = syscall(SYS_readlink, link, out, size - 1);
	if (n < 0)
		n = 0;
	out[n] = 0;
}

/* returns 0 not counted, 1 counted, 2 counted and it is the crash point */
static int step(const char* name, const char* detail, const char* extra)
{
	int r = 1;
	long idx;
	init();
	if (crash_match && !strstr(detail, crash_match) && !(extra && strstr(extra, crash_match)))
		return 0;
	pthread_mutex_lock(&mtx);
	idx = ++counter;
	if (crash_log) {
		int f = syscall(SYS_open, crash_log, O_WRONLY | O_CREAT | O_APPEND, 0644);
		if (f >= 0) {
			char buf[4096];
			int n = snprintf(buf, sizeof(buf), "%ld %s %s %s\n", idx, name, detail, extra ? extra : "");
			syscall(SYS_write, f, buf, n);
			syscall(SYS_close, f);
		}
	}
	if (idx == crash_at) {
		if (crash_mode == 3) {
			syscall(SYS_kill, getpid(), SIGINT);
		} else if (crash_mode == 4) {
			syscall(SYS_kill, getpid(), SIGTERM);
		} else {
			r = 2;
		}
	}
	pthread_mutex_unlock(&mtx);
	return r;
}

#define REAL(type, name, ...) \
	static type (*real)(__VA_ARGS__) = 0; \
	if (!real) real = dlsym(RTLD_NEXT, #name)

static int is_std(int fd)
{
	return fd == 1 || fd == 2;
}

ssize_t write(int fd, const void* buf, size_t count)
{
	REAL(ssize_t, write, int, const void*, size_t);
	char p[1024];
	char d[1200];
	int s;
	ssize_t r;
	if (is_std(fd))
		return real(fd, buf, count);
	fdpath(fd, p, sizeof(p));
	snprintf(d, sizeof(d), "%s len=%zu", p, count);
	s = step("write", d, 0);
	if (s == 2 && crash_mode == 0)
		die();
	if (s == 2 && crash_mode == 2) {
		real(fd, buf, count / 2);
		die();
	}
	r = real(fd, buf, count);
	if (s == 2)
		die();
	return r;
}

static ssize_t do_pwrite(int fd, const void* buf, size_t count, off_t offset)
{
	static ssize_t (*real)(int, const void*, size_t, off_t) = 0;
	char p[1024];
	char d[1200];
	int s;
	ssize_t r;
	if (!real)
		real = dlsym(RTLD_NEXT, "pwrite64");
	init();
	fdpath(fd, p, sizeof(p));
	if (delay_match && delay_ms && strstr(p, delay_match)) {
		struct timespec ts;
		ts.tv_sec = delay_ms / 1000;
		ts.tv_nsec = (delay_ms % 1000) * 1000000L;
		nanosleep(&ts, 0);
	}
	snprintf(d, sizeof(d), "%s len=%zu off=%lld", p, count, (long long)offset);
	s = step("pwrite", d, 0);
	if (s == 2 && crash_mode == 0)
		die();
	if (s == 2 && crash_mode == 2) {
		real(fd, buf, count / 2, offset);
		die();
	}
	r = real(fd, buf, count, offset);
	if (s == 2)
		die();
	return r;
}

ssize_t pwrite(int fd, const void* buf, size_t count, off_t offset)
{
	return do_pwrite(fd, buf, count, offset);
}

ssize_t pwrite64(int fd, const void* buf, size_t count, off_t offset)
{
	return do_pwrite(fd, buf, count, offset);
}

#define PRE(s) do { if ((s) == 2 && crash_mode != 1) die(); } while (0)
#define POST(s) do { if ((s) == 2) die(); } while (0)

int rename(const char* from, const char* to)
{
	REAL(int, rename, const char*, const char*);
	int s = step("rename", from, to);
	int r;
	PRE(s);
	r = real(from, to);
	POST(s);
	if (kill_rename_to && strstr(to, kill_rename_to)) {
		pthread_mutex_lock(&mtx);
		++kill_rename_count;
		if (kill_rename_count == kill_rename_n)
			die();
		pthread_mutex_unlock(&mtx);
	}
	return r;
}

static int do_ftruncate(int fd, off_t len)
{
	static int (*real)(int, off_t) = 0;
	char p[1024];
	char d[1200];
	int s, r;
	if (!real)
		real = dlsym(RTLD_NEXT, "ftruncate64");
	fdpath(fd, p, sizeof(p));
	snprintf(d, sizeof(d), "%s len=%lld", p, (long long)len);
	s = step("ftruncate", d, 0);
	PRE(s);
	r = real(fd, len);
	POST(s);
	return r;
}

int ftruncate(int fd, off_t len)
{
	return do_ftruncate(fd, len);
}

int ftruncate64(int fd, off_t len)
{
	return do_ftruncate(fd, len);
}

static int do_fallocate(int fd, int mode, off_t off, off_t len)
{
	static int (*real)(int, int, off_t, off_t) = 0;
	char p[1024];
	char d[1200];
	int s, r;
	if (!real)
		real = dlsym(RTLD_NEXT, "fallocate64");
	fdpath(fd, p, sizeof(p));
	snprintf(d, sizeof(d), "%s mode=%d off=%lld len=%lld", p, mode, (long long)off, (long long)len);
	s = step("fallocate", d, 0);
	PRE(s);
	r = real(fd, mode, off, len);
	POST(s);
	return r;
}

int fallocate(int fd, int mode, off_t off, off_t len)
{
	return do_fallocate(fd, mode, off, len);
}

int fallocate64(int fd, int mode, off_t off, off_t len)
{
	return do_fallocate(fd, mode, off, len);
}

int fsync(int fd)
{
	REAL(int, fsync, int);
	char p[1024];
	int s, r;
	fdpath(fd, p, sizeof(p));
	s = step("fsync", p, 0);
	PRE(s);
	r = real(fd);
	POST(s);
	return r;
}

int fdatasync(int fd)
{
	REAL(int, fdatasync, int);
	char p[1024];
	int s, r;
	fdpath(fd, p, sizeof(p));
	s = step("fdatasync", p, 0);
	PRE(s);
	r = real(fd);
	POST(s);
	return r;
}

int unlink(const char* path)
{
	REAL(int, unlink, const char*);
	int s = step("unlink", path, 0);
	int r;
	PRE(s);
	r = real(path);
	POST(s);
	return r;
}

int remove(const char* path)
{
	REAL(int, remove, const char*);
	int s = step("remove", path, 0);
	int r;
	PRE(s);
	r = real(path);
	POST(s);
	return r;
}

int rmdir(const char* path)
{
	REAL(int, rmdir, const char*);
	int s = step("rmdir", path, 0);
	int r;
	PRE(s);
	r = real(path);
	POST(s);
	return r;
}

int mkdir(const char* path, mode_t mode)
{
	REAL(int, mkdir, const char*, mode_t);
	int s = step("mkdir", path, 0);
	int r;
	PRE(s);
	r = real(path, mode);
	POST(s);
	return r;
}

int link(const char* from, const char* to)
{
	REAL(int, link, const char*, const char*);
	int s = step("link", from, to);
	int r;
	PRE(s);
	r = real(from, to);
	POST(s);
	return r;
}

int symlink(const char* from, const char* to)
{
	REAL(int, symlink, const char*, const char*);
	int s = step("symlink", from, to);
	int r;
	PRE(s);
	r = real(from, to);
	POST(s);
	return r;
}

int futimens(int fd, const struct timespec tv[2])
{
	REAL(int, futimens, int, const struct timespec*);
	char p[1024];
	int s, r;
	fdpath(fd, p, sizeof(p));
	s = step("futimens", p, 0);
	PRE(s);
	r = real(fd, tv);
	POST(s);
	return r;
}

int utimensat(int dirfd, const char* path, const struct timespec tv[2], int flags)
{
	REAL(int, utimensat, int, const char*, const struct timespec*, int);
	int s = step("utimensat", path ? path : "(null)", 0);
	int r;
	PRE(s);
	r = real(dirfd, path, tv, flags);
	POST(s);
	return r;
}

int futimes(int fd, const struct timeval tv[2])
{
	REAL(int, futimes, int, const struct timeval*);
	char p[1024];
	int s, r;
	fdpath(fd, p, sizeof(p));
	s = step("futimes", p, 0);
	PRE(s);
	r = real(fd, tv);
	POST(s);
	return r;
}

int utimes(const char* path, const struct timeval tv[2])
{
	REAL(int, utimes, const char*, const struct timeval*);
	int s = step("utimes", path, 0);
	int r;
	PRE(s);
	r = real(path, tv);
	POST(s);
	return r;
}

int lutimes(const char* path, const struct timeval tv[2])
{
	REAL(int, lutimes, const char*, const struct timeval*);
	int s = step("lutimes", path, 0);
	int r;
	PRE(s);
	r = real(path, tv);
	POST(s);
	return r;
}

int utime(const char* path, const struct utimbuf* t)
{
	REAL(int, utime, const char*, const struct utimbuf*);
	int s = step("utime", path, 0);
	int r;
	PRE(s);
	r = real(path, t);
	POST(s);
	return r;
}

static int open_common(const char* name, const char* path, int flags, mode_t mode)
{
	static int (*real)(const char*, int, ...) = 0;
	int s = 0, r;
	if (!real)
		real = dlsym(RTLD_NEXT, "open64");
	init();
	if (crash_open && (flags & (O_CREAT | O_TRUNC))) {
		char d[1200];
		snprintf(d, sizeof(d), "%s flags=%s%s", path, (flags & O_CREAT) ? "C" : "", (flags & O_TRUNC) ? "T" : "");
		s = step(name, d, 0);
	}
	PRE(s);
	r = real(path, flags, mode);
	POST(s);
	return r;
}

int open(const char* path, int flags, ...)
{
	mode_t mode = 0;
	if (flags & (O_CREAT | O_TMPFILE)) {
		va_list ap;
		va_start(ap, flags);
		mode = va_arg(ap, mode_t);
		va_end(ap);
	}
	return open_common("open", path, flags, mode);
}

int open64(const char* path, int flags, ...)
{
	mode_t mode = 0;
	if (flags & (O_CREAT | O_TMPFILE)) {
		va_list ap;
		va_start(ap, flags);
		mode = va_arg(ap, mode_t);
		va_end(ap);
	}
	return open_common("open", path, flags, mode);
}
