#!/bin/bash
# C07: additions-only sync stopped with Ctrl+C, restarted, and stopped with Ctrl+C again:
# after the second graceful stop the files synced before are no more recoverable from a single
# lost device on the stripes not yet reached (1 parity).
# exit 0 = property holds, 1 = violated
SNAP=${1:-/tmp/seed/HC07/wt/snapraid}
SNAP=$(readlink -f "$SNAP")
HERE=$(cd "$(dirname "$0")" && pwd)
TOP=$(mktemp -d /tmp/c07-twice.XXXXXX)
trap 'rm -rf "$TOP"' EXIT
gcc -shared -fPIC -O1 -o "$TOP/shim.so" "$HERE/shim.c" -ldl -lpthread || exit 2
bad=0

scenario() { # $1 = name, $2 = number of interrupted runs (1 = control, 2)
	local T="$TOP/$1"
	mkdir -p "$T/d1" "$T/d2" "$T/p" "$T/c1" "$T/c2"
	cat > "$T/conf" <<EOC
blocksize 1
parity $T/p/parity.par
content $T/c1/snapraid.content
content $T/c2/snapraid.content
data d1 $T/d1/
data d2 $T/d2/
EOC
	local OPT="--test-skip-device --test-skip-self --no-warnings -c $T/conf"
	head -c 8192 /dev/urandom > "$T/d1/old"
	$SNAP $OPT sync > "$T/sync1.log" 2>&1 || { cat "$T/sync1.log"; exit 2; }
	sha1sum < "$T/d1/old" > "$T/old.sha"
	# only an addition pending: d2/new shares the stripes 0..7 with d1/old
	head -c 8192 /dev/urandom > "$T/d2/new"
	# first run: Ctrl+C (SIGINT) when the parity of stripe 1 is written
	LD_PRELOAD="$TOP/shim.so" CRASH_MATCH="parity.par len=1024 off=1024" CRASH_AT=1 CRASH_MODE=sigint \
		$SNAP $OPT --test-io-cache=1 sync > "$T/sync2.log" 2>&1 || { echo "$1: first interrupted sync failed"; exit 2; }
	if [ "$2" = 2 ]; then
		# second run: restarts where interrupted, Ctrl+C again when the parity of stripe 3 is written
		LD_PRELOAD="$TOP/shim.so" CRASH_MATCH="parity.par len=1024 off=3072" CRASH_AT=1 CRASH_MODE=sigint \
			$SNAP $OPT --test-io-cache=1 sync > "$T/sync3.log" 2>&1 || { echo "$1: second interrupted sync failed"; exit 2; }
	fi
	$SNAP $OPT status 2>&1 | grep "sync in progress"
	# single lost device
	rm -f "$T/d1/old"
	$SNAP $OPT -d d1 fix > "$T/fix.log" 2>&1
	frc=$?
	if [ -f "$T/d1/old" ] && [ "$(sha1sum < "$T/d1/old")" = "$(cat "$T/old.sha")" ]; then
		echo "$1: OK, d1/old recovered"
	else
		echo "$1: VIOLATION, d1/old (synced before, only additions pending) is not recoverable after losing d1 only (fix rc=$frc): $(grep -E 'UNRECOVERABLE' "$T/fix.log")"
		bad=1
	fi
}

scenario control-one-stop 1
scenario two-stops 2
exit $bad
