#!/bin/bash
# C08: the readers test 'errno == EIO' only after having called the message
# functions, which can change errno.  When the log file (-l) cannot be written
# (here /dev/full, i.e. a log on a full file-system), the EIO of a data/parity
# read in scrub is seen as ENOSPC, classified as a generic file error, and the
# stripe is not marked bad.
. "$(dirname "$0")/common.sh"
bad=0
for tgt in d1/a p0/par; do
	rm -rf $T/p* $T/d* $T/c $T/conf $T/fi.log
	setup 2 1
	mkfile $T/d1/a 8192; mkfile $T/d2/b 8192
	sn sync > $T/sync.out 2>&1 || { echo "initial sync failed"; exit 2; }
	snfi "pread,$tgt,3072,5" -l /dev/full -p full scrub > $T/scrub.out 2>&1; ex=$?
	echo "== injected: $(cat $T/fi.log 2>/dev/null)"
	grep -E "file errors|io errors|DANGER|WARNING" $T/scrub.out
	echo "scrub exit status: $ex"
	st=$(status_line); echo "status: $st"
	[ "$ex" -ne 0 ] || { echo "VIOLATION: scrub returned 0"; bad=1; }
	echo "$st" | grep -q "DANGER! In the array" || { echo "VIOLATION: stripe 3 had a read EIO on $tgt but is still recorded as synced and healthy"; bad=1; }
done
exit $bad
