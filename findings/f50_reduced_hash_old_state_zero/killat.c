/*
 * LD_PRELOAD shim: counts the state-changing system calls issued by the process
 * and kills it (SIGKILL) just before / just after / in the middle of call number KILLAT_N.
 *
 * KILLAT_N     index (1 based) of the call at which to die, 0 = never (only count/log)
 * KILLAT_MODE  before | after | short   (short: for write/pwrite only half of the bytes are written)
 * KILLAT_LOG   if set, every counted call is appended to this file
 * KILLAT_ONLY  if set, comma separated list of call names to count (default all)
 * KILLAT_PATH  if set, count only calls whose path/fd-path contains this substring
 */
#define _GNU_SOURCE
#include <dlfcn.h>
#include <stdio.h>
#include <stdlib.h>
#include <string.h>
#include <unistd.h>
#include <fcntl.h>
#include <signal.h>
#include <stdarg.h>
#include <sys/types.h>
#include <sys/stat.h>
#include <sys/syscall.h>
#include <sys/time.h>
#include <time.h>
#include <errno.h>

static int g_n = -1;
static int g_mode = 0; /* 0 before, 1 after, 2 short */
static const char* g_log;
static const char* g_only;
static const char* g_path;
static volatile int g_count;

static void init(void)
{
	const char* e;
	if (g_n != -1)
		return;
	e = getenv("KILLAT_N");
	g_n = e ? atoi(e) : 0;
	e = getenv("KILLAT_MODE");
	if (e && strcmp(e, "after") == 0)
		g_mode = 1;
	else if (e && strcmp(e, "short") == 0)
		g_mode = 2;
	else if (e && strcmp(e, "sigint") == 0)
		g_mode = 3;
	else if (e && strcmp(e, "sigterm") == 0)
		g_mode = 4;
	g_log = getenv("KILLAT_LOG");
	g_only = getenv("KILLAT_ONLY");
	g_path = getenv("KILLAT_PATH");
}

static void die(void)
{
	syscall(SYS_kill, getpid(), SIGKILL);
	for (;;)
		pause();
}

static void fdpath(int fd, char* buf, size_t size)
{
	char link[64];
	ssize_t r;
	snprintf(link, sizeof(link), "/proc/self/fd/%d", fd);
	r = readlink(link, buf, size - 1);
	if (r < 0)
		r = 0;
	buf[r] = 0;
}

/* return 0 not counted, 1 counted, 2 counted and it's the one */
static int hit(const char* name, const char* path, long long a, long long b)
{
	int c;
	init();
	if (g_only) {
		const char* p = strstr(g_only, name);
		size_t l = strlen(name);
		if (!p || (p != g_only && p[-1] != ',') || (p[l] != 0 && p[l] != ','))
			return 0;
	}
	if (g_path && (!path || !strstr(path, g_path)))
		return 0;
	c = __sync_add_and_fetch(&g_count, 1);
	if (g_log) {
		char line[1200];
		int l = snprintf(line, sizeof(line), "%d %s %s %lld %lld\n", c, name, path ? path : "", a, b);
		int f = syscall(SYS_open, g_log, O_WRONLY | O_APPEND | O_CREAT, 0600);
		if (f >= 0) {
			syscall(SYS_write, f, line, l);
			syscall(SYS_close, f);
		}
	}
	if (g_n > 0 && c == g_n) {
		if (g_mode == 3) {
			syscall(SYS_kill, getpid(), SIGINT);
			return 1;
		}
		if (g_mode == 4) {
			syscall(SYS_kill, getpid(), SIGTERM);
			return 1;
		}
		return 2;
	}
	/* if another thread is over the limit, it means the process is dying */
	return 1;
}

#define REAL(name) \
	static typeof(&name) real; \
	if (!real) real = dlsym(RTLD_NEXT, #name)

static int skipfd(int fd)
{
	struct stat st;
	if (fd <= 2)
		return 1;
	if (fstat(fd, &st) != 0)
		return 1;
	if (!S_ISREG(st.st_mode) && !S_ISDIR(st.st_mode))
		return 1;
	return 0;
}

ssize_t write(int fd, const void* buf, size_t n)
{
	REAL(write);
	char p[1024];
	int h;
	ssize_t r;
	if (skipfd(fd))
		return real(fd, buf, n);
	fdpath(fd, p, sizeof(p));
	h = hit("write", p, n, 0);
	if (h == 2) {
		if (g_mode == 0)
			die();
		if (g_mode == 2) {
			real(fd, buf, n / 2);
			die();
		}
	}
	r = real(fd, buf, n);
	if (h == 2)
		die();
	return r;
}

static ssize_t do_pwrite(ssize_t (*real)(int, const void*, size_t, off_t), int fd, const void* buf, size_t n, off_t off)
{
	char p[1024];
	int h;
	ssize_t r;
	if (skipfd(fd))
		return real(fd, buf, n, off);
	fdpath(fd, p, sizeof(p));
	h = hit("pwrite", p, n, off);
	if (h == 2) {
		if (g_mode == 0)
			die();
		if (g_mode == 2) {
			real(fd, buf, n / 2, off);
			die();
		}
	}
	r = real(fd, buf, n, off);
	if (h == 2)
		die();
	return r;
}

ssize_t pwrite(int fd, const void* buf, size_t n, off_t off)
{
	REAL(pwrite);
	return do_pwrite(real, fd, buf, n, off);
}

ssize_t pwrite64(int fd, const void* buf, size_t n, off_t off)
{
	REAL(pwrite64);
	return do_pwrite((void*)real, fd, buf, n, off);
}

#define PRE(h) do { if ((h) == 2 && g_mode != 1) die(); } while (0)
#define POST(h) do { if ((h) == 2) die(); } while (0)

int rename(const char* a, const char* b)
{
	REAL(rename);
	int h = hit("rename", b, 0, 0);
	int r;
	PRE(h);
	r = real(a, b);
	POST(h);
	return r;
}

int ftruncate(int fd, off_t len)
{
	REAL(ftruncate);
	char p[1024];
	int h, r;
	fdpath(fd, p, sizeof(p));
	h = hit("ftruncate", p, len, 0);
	PRE(h);
	r = real(fd, len);
	POST(h);
	return r;
}

int ftruncate64(int fd, off_t len)
{
	REAL(ftruncate64);
	char p[1024];
	int h, r;
	fdpath(fd, p, sizeof(p));
	h = hit("ftruncate", p, len, 0);
	PRE(h);
	r = real(fd, len);
	POST(h);
	return r;
}

int fallocate(int fd, int mode, off_t off, off_t len)
{
	REAL(fallocate);
	char p[1024];
	int h, r;
	fdpath(fd, p, sizeof(p));
	h = hit("fallocate", p, off, len);
	PRE(h);
	r = real(fd, mode, off, len);
	POST(h);
	return r;
}

int fallocate64(int fd, int mode, off_t off, off_t len)
{
	REAL(fallocate64);
	char p[1024];
	int h, r;
	fdpath(fd, p, sizeof(p));
	h = hit("fallocate", p, off, len);
	PRE(h);
	r = real(fd, mode, off, len);
	POST(h);
	return r;
}

int fsync(int fd)
{
	REAL(fsync);
	char p[1024];
	int h, r;
	fdpath(fd, p, sizeof(p));
	h = hit("fsync", p, 0, 0);
	PRE(h);
	r = real(fd);
	POST(h);
	return r;
}

int unlink(const char* a)
{
	REAL(unlink);
	int h, r;
	struct stat st;
	/* don't count the removal of something that doesn't exist */
	if (lstat(a, &st) != 0)
		return real(a);
	h = hit("unlink", a, 0, 0);
	PRE(h);
	r = real(a);
	POST(h);
	return r;
}

int remove(const char* a)
{
	REAL(remove);
	int h, r;
	struct stat st;
	if (lstat(a, &st) != 0)
		return real(a);
	h = hit("unlink", a, 0, 0);
	PRE(h);
	r = real(a);
	POST(h);
	return r;
}

int rmdir(const char* a)
{
	REAL(rmdir);
	int h, r;
	h = hit("rmdir", a, 0, 0);
	PRE(h);
	r = real(a);
	POST(h);
	return r;
}

int mkdir(const char* a, mode_t m)
{
	REAL(mkdir);
	int h, r;
	h = hit("mkdir", a, 0, 0);
	PRE(h);
	r = real(a, m);
	POST(h);
	return r;
}

int link(const char* a, const char* b)
{
	REAL(link);
	int h, r;
	h = hit("link", b, 0, 0);
	PRE(h);
	r = real(a, b);
	POST(h);
	return r;
}

int symlink(const char* a, const char* b)
{
	REAL(symlink);
	int h, r;
	h = hit("symlink", b, 0, 0);
	PRE(h);
	r = real(a, b);
	POST(h);
	return r;
}

int futimens(int fd, const struct timespec tv[2])
{
	REAL(futimens);
	char p[1024];
	int h, r;
	fdpath(fd, p, sizeof(p));
	h = hit("utimens", p, 0, 0);
	PRE(h);
	r = real(fd, tv);
	POST(h);
	return r;
}

int utimensat(int dfd, const char* a, const struct timespec tv[2], int flags)
{
	REAL(utimensat);
	int h, r;
	h = hit("utimens", a, 0, 0);
	PRE(h);
	r = real(dfd, a, tv, flags);
	POST(h);
	return r;
}

/* creation of a file with open(O_CREAT) is also a state change */
static int do_open(int (*real)(const char*, int, ...), const char* a, int flags, mode_t m)
{
	int h = 0, r;
	struct stat st;
	if ((flags & O_CREAT) != 0 && lstat(a, &st) != 0)
		h = hit("creat", a, 0, 0);
	else if ((flags & O_TRUNC) != 0 && lstat(a, &st) == 0 && st.st_size != 0)
		h = hit("otrunc", a, 0, 0);
	PRE(h);
	r = real(a, flags, m);
	POST(h);
	return r;
}

int open(const char* a, int flags, ...)
{
	REAL(open);
	mode_t m = 0;
	if (flags & O_CREAT) {
		va_list ap;
		va_start(ap, flags);
		m = va_arg(ap, int);
		va_end(ap);
	}
	return do_open(real, a, flags, m);
}

int open64(const char* a, int flags, ...)
{
	REAL(open64);
	mode_t m = 0;
	if (flags & O_CREAT) {
		va_list ap;
		va_start(ap, flags);
		m = va_arg(ap, int);
		va_end(ap);
	}
	return do_open(real, a, flags, m);
}
