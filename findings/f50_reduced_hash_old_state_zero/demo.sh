#!/bin/bash
# Property C07: after an interrupted sync that had only additions pending, every file
# synced before stays recoverable from any single lost device.
# Here the array uses "hashsize 8": the same scenario passes with the default hash size.
# exit 0 = property holds, 1 = violated, 2 = the demo could not run
SNAP=$(readlink -f "${1:-./snapraid}")
HERE=$(dirname "$(readlink -f "$0")")
T=$(mktemp -d /tmp/gc07-demo.XXXXXX)
trap 'rm -rf "$T"' EXIT
gcc -O2 -shared -fPIC -o "$T/killat.so" "$HERE/killat.c" -ldl || exit 2

# run a command that is going to be killed, without the "Killed" message of the shell
killrun() { sh -c 'log=$1; shift; "$@" > "$log" 2>&1; exit $?' sh "$@" 2>/dev/null; }

run_case() { # $1 = dir, $2 = extra conf line
	local A=$1
	mkdir -p $A/d1 $A/d2 $A/d3 $A/p $A/c1 $A/c2
	cat > $A/conf <<END
blocksize 1
$2
parity $A/p/parity
content $A/c1/content
content $A/c2/content
data d1 $A/d1
data d2 $A/d2
data d3 $A/d3
END
	S="$SNAP -c $A/conf --test-skip-device --test-skip-self --test-io-cache=1"
	# files synced before
	head -c 3072 /dev/urandom > $A/d1/old
	head -c 1024 /dev/urandom > $A/d2/keep
	head -c 1024 /dev/urandom > $A/d3/keep
	$S sync > $A/log.base 2>&1 || { cat $A/log.base; return 2; }
	OLD=$(sha1sum < $A/d1/old)
	# only additions pending: a new file in d2 that shares the stripes 1 and 2 with d1/old
	head -c 4096 /dev/urandom > $A/d2/new
	# the sync is killed just before its first parity write, after the content file
	# with the state of the interrupted sync was saved
	killrun $A/log.sync env KILLAT_N=1 KILLAT_MODE=before KILLAT_ONLY=pwrite KILLAT_PATH=$A/p/ LD_PRELOAD=$T/killat.so $S sync
	rc=$?
	[ $rc = 137 ] || { echo "sync was not killed (rc=$rc)"; cat $A/log.sync; return 2; }
	# one single device is lost: d1
	rm -f $A/d1/old
	$S fix -d d1 > $A/log.fix 2>&1
	NOW=$([ -f $A/d1/old ] && sha1sum < $A/d1/old)
	if [ "$OLD" = "$NOW" ]; then
		echo "   d1/old recovered"
		return 0
	fi
	echo "   d1/old NOT recovered:"
	grep -E "unrecoverable|UNRECOVERABLE|recovered" $A/log.fix | sed 's/^/      /'
	ls $A/d1 | sed 's/^/      d1: /'
	return 1
}

echo "control, default hash size:"
run_case $T/a ""
r0=$?
[ $r0 = 0 ] || { echo "the control case does not pass, rc=$r0"; [ $r0 = 1 ] && exit 1; exit 2; }
echo "hashsize 8:"
run_case $T/b "hashsize 8"
r1=$?
[ $r1 = 2 ] && exit 2
if [ $r1 = 0 ]; then
	echo "OK: property holds"
	exit 0
fi
echo "VIOLATION: with 'hashsize 8' a file synced before is lost after an interrupted sync of additions and the loss of one disk"
exit 1
