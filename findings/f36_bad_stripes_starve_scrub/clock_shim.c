#define _GNU_SOURCE
#include <time.h>
#include <stdlib.h>
#include <dlfcn.h>
time_t time(time_t* t)
{
	const char* e = getenv("FAKE_TIME");
	time_t r;
	if (e) r = (time_t)strtoll(e, 0, 10);
	else { struct timespec ts; clock_gettime(CLOCK_REALTIME, &ts); r = ts.tv_sec; }
	if (t) *t = r;
	return r;
}
