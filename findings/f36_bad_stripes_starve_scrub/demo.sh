#!/bin/bash
# Property C15: "repeated default scrubs eventually cover every stripe"
# (quantified over bad marks and per-stripe times).
#
# Stripes marked bad that stay bad (errors not fixed, or not fixable) are scrubbed in
# every plan, but they are ALSO counted among "the oldest stripes" that fill the quota
# of the default plan (1/12 of the array). As they keep their old time, they fill the
# quota at every run: when there are at least as many of them as the quota, a default
# scrub never verifies anything else, whatever the number of runs.
#
# usage: demo.sh /path/to/snapraid      exit 0 = property holds, 1 = violated
SNAP=${1:?usage: demo.sh /path/to/snapraid}
SNAP=$(readlink -f "$SNAP")
HERE=$(cd "$(dirname "$0")" && pwd)
T=$(mktemp -d)
trap 'rm -rf "$T"' EXIT

gcc -shared -fPIC -O2 -o "$T/clock.so" "$HERE/clock_shim.c" -ldl || { echo "cannot build the shim"; exit 2; }

mkdir -p $T/d1 $T/d2 $T/p $T/c
cat > $T/conf <<EOC
blocksize 1
parity $T/p/parity
content $T/c/content
data d1 $T/d1
data d2 $T/d2
EOC
# snapraid with the clock set to $1 (seconds since the epoch)
S() { local t=$1; shift; FAKE_TIME=$t LD_PRELOAD=$T/clock.so timeout -s KILL 120 $SNAP -c $T/conf --test-skip-device --test-skip-self "$@"; }
DAY=86400
T0=1500000000

# day 0: a small file, 2 stripes; day 1: 22 more stripes. 24 stripes: the default plan scrubs 24/12 = 2 per run
head -c 2048 /dev/urandom > $T/d1/a
S $T0 sync > $T/out 2>&1 || { cat $T/out; exit 2; }
head -c 22528 /dev/urandom > $T/d1/b
S $((T0 + DAY)) sync > $T/out 2>&1 || { cat $T/out; exit 2; }

# silent corruption in both blocks of 'a' (same size, same mtime), never repaired
cp -p $T/d1/a $T/a.orig
printf 'X' | dd of=$T/d1/a bs=1 seek=100 conv=notrunc 2> /dev/null
printf 'X' | dd of=$T/d1/a bs=1 seek=1100 conv=notrunc 2> /dev/null
touch -r $T/a.orig $T/d1/a

# 40 default scrubs, one per day, starting when everything is older than 10 days
# (without bad stripes 12 runs are enough to cover the whole array)
for i in $(seq 1 40); do
	S $((T0 + (12 + i) * DAY)) scrub > $T/out 2>&1
done
S $((T0 + 60 * DAY)) status --gui -l $T/status.log > /dev/null 2>&1

never=$(grep -E '^block:' $T/status.log | awk -F: -v lim=$((T0 + DAY)) '$3 <= lim && $6 != "bad"' | wc -l)
bad=$(grep -c -E '^block:.*:bad:' $T/status.log)
echo "after 40 daily default scrubs: $bad stripes bad; stripes never verified since their sync on day 1: $never of 22"
grep -E '^block:' $T/status.log | awk -F: '{print "   stripe " $2 " last check time " $3 " " $6}' | head -6
echo "   ..."
if [ "$never" != "0" ]; then
	echo "VIOLATION: $never stripes were never covered by 40 default scrubs: the 2 stripes that stay bad fill the quota at every run"
	exit 1
fi
echo "OK: every stripe has been covered"
exit 0
