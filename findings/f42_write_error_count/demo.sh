#!/bin/bash
# C13 / the number of parity write errors counted by sync depends on when the writer thread reports them
# exit 0 = property holds, 1 = violated, 2 = setup problem
. "$(dirname "$0")/common.sh"

violated=0

# 16 stripes; the parity writes of stripe 8 and stripe 9 fail with EIO.
# timing only: the write of stripe 8 takes 50 ms before failing, and the data read of stripe 10 takes 400 ms,
# so that with worker threads both failures are known before the main thread collects the writer errors again
run_case() { # run_case <cache> [extra snapraid options]
	local cache=$1 R=$TMP/a; shift
	mkarray $R 2 1
	mkfile $R/d1/a 16384 s1; mkfile $R/d2/b 16384 s2
	SHIM_PWRITE_FAIL="p0/parity,8192,5;p0/parity,9216,5" SHIM_PWRITE_DELAY="p0/parity,8192,50" SHIM_PREAD_DELAY="d1/a,10240,400" \
		LD_PRELOAD=$SHIM timeout 120 "$SNAP" -c $R/conf --test-skip-device --test-skip-self --test-force-order-alpha \
		$(cacheopt $cache) "$@" sync -l $R/log > $R/out 2>&1
	RC=$?
	FAILED=$(grep -c '^parity_error:.*Write EIO' $R/log)
	COUNT=$(sed -n 's/^summary:error_io://p' $R/log)
	STOP=$(grep -c 'Stopping at block' $R/out)
	echo "cache=$cache $*: exit=$RC, failed parity writes logged=$FAILED, io errors counted by sync=${COUNT:-none}, stopped for error limit=$STOP"
}

run_case 1
ref=$COUNT
[ "$ref" = 2 ] || { echo "setup problem: the single-threaded run was expected to count 2 io errors"; exit 2; }
for c in 4 5; do
	run_case $c
	[ "$COUNT" = "$ref" ] || violated=1
done

echo "--- same with an error limit of 2 (-L 2): sync has to stop at the second io error"
run_case 1 -L 2
refstop=$STOP
run_case 4 -L 2
[ "$STOP" = "$refstop" ] || violated=1

if [ $violated = 1 ]; then
	echo "VIOLATED: the same two failed parity writes are counted as $ref io errors single-threaded and differently with worker threads"
	exit 1
fi
echo "HOLDS: same io error count for every cache depth"
exit 0
