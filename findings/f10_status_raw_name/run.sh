#!/bin/sh
# status -l: a recorded name containing ':' / newline must stay one unambiguous field of the tag log
SNAP=${1:-/repo/snapraid}
R=/tmp/f10/a; rm -rf $R; mkdir -p $R/d1 $R/p $R/c
cat > $R/conf <<EOF
blocksize 1
parity $R/p/parity
content $R/c/content
content $R/d1/content
data d1 $R/d1
EOF
S="$SNAP -c $R/conf --test-skip-device --test-skip-self"
N=$(printf 'x:y\nsummary:has_bad:1:1:1')
head -c 2000 /dev/urandom > "$R/d1/$N"
touch -d "2020-01-01 00:00:00.000000000" "$R/d1/$N"
$S sync > /dev/null 2>&1 || exit 2
$S -l $R/status.log status > /dev/null 2>&1
grep -c "^summary:has_bad:1:1:1" $R/status.log | grep -q '^0$' || { echo "VIOLATION: a file name injects a fake 'summary:has_bad' record into the status log"; grep -n "zerosubsecond" -A1 $R/status.log | head -4; exit 1; }
echo "ok: name is escaped"; grep "zerosubsecond" $R/status.log | head -2
