#!/bin/bash
# fix (and check) do nothing at all when the array holds no data block
. "$(dirname "$0")/../common.sh"
mkarray 1 2
mkdir -p $T/d1/emptydir
ln -s target $T/d1/sl
: > $T/d1/empty; touch -d '2001-01-01 00:00:00.5 UTC' $T/d1/empty
mkdir -p $T/d2/sub/emptydir2; ln -s ../x $T/d2/sub/sl2
Q sync || { cat $T/last.out; exit 2; }
# lose disk d1 (one device, one parity level)
rm -rf $T/d1/emptydir $T/d1/sl $T/d1/empty
Q fix; FIXRC=$?
[ $FIXRC = 0 ] || viol "fix failed"
[ -d $T/d1/emptydir ] || viol "empty directory d1/emptydir not restored"
[ "$(readlink $T/d1/sl)" = target ] || viol "symlink d1/sl not restored"
[ -f $T/d1/empty ] || viol "empty file d1/empty not restored"
[ "$(stat -c %.9Y $T/d1/empty 2>/dev/null)" = "978307200.500000000" ] || viol "mtime of d1/empty not restored"
Q check || viol "check reports errors after fix"
# show that check does not even notice
rm -rf $T/d1/emptydir $T/d1/sl $T/d1/empty
Q check && echo "note: check exits 0 although every recorded object of d1 is missing"
finish
