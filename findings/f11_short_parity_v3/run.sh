#!/bin/sh
# F11 (C14): with a content file that records the split sizes (format v3: `hashsize` other than 16, or split parity) the
# "parity file smaller than expected" interlock of sync compared the RECORDED size, not the real one: an emptied / replaced
# parity file was silently re-extended with zeros and sync exited 0, leaving every untouched stripe without parity.
# usage: run.sh <snapraid binary>   -> exit 0 if the interlock refuses (fixed), 1 if sync goes on (defect)
BIN=${1:-/repo/snapraid}
B=$(mktemp -d /tmp/f11.XXXXXX); trap 'rm -rf "$B"' EXIT
mkdir -p $B/d1 $B/d2 $B/p $B/c
{ echo "blocksize 1"; echo "hashsize 8"; echo "parity $B/p/parity"; echo "content $B/c/content"; echo "content $B/d1/content"; echo "data d1 $B/d1"; echo "data d2 $B/d2"; } > $B/conf
head -c 20000 /dev/urandom > $B/d1/a; head -c 15000 /dev/urandom > $B/d2/b
timeout 60 $BIN -c $B/conf --test-skip-device sync > $B/sync1.log 2>&1 || { echo "setup sync failed"; exit 2; }
h0=$(sha256sum $B/c/content | cut -c1-16)
: > $B/p/parity                      # the parity disk was replaced by an empty one
echo new > $B/d2/new                 # an ordinary pending change
timeout 60 $BIN -c $B/conf --test-skip-device sync > $B/sync2.log 2>&1; rc=$?
h1=$(sha256sum $B/c/content | cut -c1-16); sz=$(stat -c %s $B/p/parity)
echo "sync after the parity file was emptied: exit $rc; content changed: $([ $h0 = $h1 ] && echo no || echo yes); parity size now $sz"
timeout 60 $BIN -c $B/conf --test-skip-device check > $B/check.log 2>&1; echo "check afterwards: exit $?  ($(grep -E ' errors$' $B/check.log | head -1 | sed 's/^ *//'))"
if [ $rc -ne 0 ] && [ $h0 = $h1 ] && [ $sz -eq 0 ]; then echo "REFUSED (property holds)"; exit 0; fi
echo "NOT REFUSED (defect)"; exit 1
