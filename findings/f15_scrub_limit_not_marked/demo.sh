#!/bin/bash
# C08: in scrub the stripe whose I/O error reaches the error limit (-L, default
# 100) is not marked bad: the code jumps out before recording the error.
# Two read errors (data block of stripe 2, parity block of stripe 5), limit 2:
# stripe 2 is marked bad, stripe 5 stays "synced and healthy".
. "$(dirname "$0")/common.sh"
setup 2 1
mkfile $T/d1/a 8192; mkfile $T/d2/b 8192
sn sync > $T/sync.out 2>&1 || { echo "initial sync failed"; exit 2; }

snfi "pread,d1/a,2048,5;pread,p0/par,5120,5" --test-io-cache=1 -L 2 -p full scrub > $T/scrub.out 2>&1; ex=$?
echo "injected:"; sed 's/^/  /' $T/fi.log 2>/dev/null
grep -E "Input/Output error|DANGER|Stopping" $T/scrub.out
echo "scrub exit status: $ex"
nbad=$(sn status 2>&1 | sed -n 's/.*In the array there are \([0-9]*\) errors.*/\1/p'); nbad=${nbad:-0}
echo "bad blocks reported by status: $nbad (2 stripes had an I/O error)"
bad=0
[ "$ex" -ne 0 ] || { echo "VIOLATION: scrub returned 0"; bad=1; }
[ "$nbad" -ge 2 ] || { echo "VIOLATION: stripe 5 had a parity read EIO but is still recorded as synced and healthy"; bad=1; }

# same with the limit at 1: nothing at all is recorded
rm -f $T/fi.log
sn -p bad scrub > /dev/null 2>&1
snfi "pread,d1/a,2048,5" --test-io-cache=1 -L 1 -p full scrub > $T/scrub2.out 2>&1; ex=$?
st=$(status_line); echo "limit 1: scrub exit status $ex, status: $st"
echo "$st" | grep -q "DANGER! In the array" || { echo "VIOLATION: stripe 2 had a data read EIO but status says 'No error detected'"; bad=1; }
exit $bad
