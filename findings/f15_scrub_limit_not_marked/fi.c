/* LD_PRELOAD fault injection shim.
 * FI_RULES="op,pathsub,offset,errno[,nth[,short]];..."
 *   op: pread | pwrite | fsync | ftruncate | close
 *   pathsub: substring of the path of the descriptor (readlink of /proc/self/fd)
 *   offset: byte offset to match, or -1 for any
 *   errno: number (5=EIO, 28=ENOSPC); for pwrite, -1 means "pretend success but
 *          drop the data" (what a failed asynchronous writeback looks like)
 *   nth: fail only the nth matching call (1-based), 0/absent = every matching call
 * FI_LOG=<file>: append a line for each injected fault
 */
#define _GNU_SOURCE
#include <dlfcn.h>
#include <errno.h>
#include <stdio.h>
#include <stdlib.h>
#include <string.h>
#include <unistd.h>
#include <pthread.h>
#include <sys/types.h>

struct rule { char op[16]; char path[256]; long long off; int err; int nth; int seen; };
static struct rule rules[64];
static int nrules = -1;
static pthread_mutex_t mu = PTHREAD_MUTEX_INITIALIZER;

static void load(void)
{
	char* s = getenv("FI_RULES");
	nrules = 0;
	if (!s) return;
	s = strdup(s);
	char* save1;
	for (char* r = strtok_r(s, ";", &save1); r && nrules < 64; r = strtok_r(0, ";", &save1)) {
		struct rule* q = &rules[nrules];
		char* save2;
		char* f[6] = {0};
		int n = 0;
		for (char* t = strtok_r(r, ",", &save2); t && n < 6; t = strtok_r(0, ",", &save2)) f[n++] = t;
		if (n < 4) continue;
		snprintf(q->op, sizeof(q->op), "%s", f[0]);
		snprintf(q->path, sizeof(q->path), "%s", f[1]);
		q->off = atoll(f[2]);
		q->err = atoi(f[3]);
		q->nth = n > 4 ? atoi(f[4]) : 0;
		q->seen = 0;
		++nrules;
	}
}

static int match(const char* op, int fd, long long off)
{
	char link[64], path[1024];
	ssize_t n;
	int i, hit = 0;
	pthread_mutex_lock(&mu);
	if (nrules < 0) load();
	if (nrules == 0) { pthread_mutex_unlock(&mu); return 0; }
	snprintf(link, sizeof(link), "/proc/self/fd/%d", fd);
	n = readlink(link, path, sizeof(path) - 1);
	if (n < 0) { pthread_mutex_unlock(&mu); return 0; }
	path[n] = 0;
	for (i = 0; i < nrules; ++i) {
		struct rule* q = &rules[i];
		if (strcmp(q->op, op) != 0) continue;
		if (!strstr(path, q->path)) continue;
		if (q->off >= 0 && q->off != off) continue;
		++q->seen;
		if (q->nth != 0 && q->seen != q->nth) continue;
		hit = q->err;
		break;
	}
	if (hit) {
		char* lg = getenv("FI_LOG");
		if (lg) {
			FILE* f = fopen(lg, "a");
			if (f) { fprintf(f, "%s %s %lld errno=%d\n", op, path, off, hit); fclose(f); }
		}
	}
	pthread_mutex_unlock(&mu);
	return hit;
}

#define REAL(name) static __typeof__(name)* real; if (!real) real = dlsym(RTLD_NEXT, #name)

ssize_t pread(int fd, void* buf, size_t count, off_t off)
{
	REAL(pread);
	int e = match("pread", fd, off);
	if (e) { errno = e; return -1; }
	return real(fd, buf, count, off);
}
ssize_t pread64(int fd, void* buf, size_t count, off64_t off)
{
	REAL(pread64);
	int e = match("pread", fd, off);
	if (e) { errno = e; return -1; }
	return real(fd, buf, count, off);
}
ssize_t pwrite(int fd, const void* buf, size_t count, off_t off)
{
	REAL(pwrite);
	int e = match("pwrite", fd, off);
	if (e == -1) return count;
	if (e) { errno = e; return -1; }
	return real(fd, buf, count, off);
}
ssize_t pwrite64(int fd, const void* buf, size_t count, off64_t off)
{
	REAL(pwrite64);
	int e = match("pwrite", fd, off);
	if (e == -1) return count;
	if (e) { errno = e; return -1; }
	return real(fd, buf, count, off);
}
int fsync(int fd)
{
	REAL(fsync);
	int e = match("fsync", fd, 0);
	if (e) { errno = e; return -1; }
	return real(fd);
}
int close(int fd)
{
	REAL(close);
	int e = match("close", fd, 0);
	if (e) { real(fd); errno = e; return -1; }
	return real(fd);
}
