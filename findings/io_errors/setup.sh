#!/bin/sh
# fresh 2-data/1-parity array under /tmp/rp/a
rm -rf /tmp/rp/a; mkdir -p /tmp/rp/a/d1 /tmp/rp/a/d2 /tmp/rp/a/p /tmp/rp/a/c
cat > /tmp/rp/a/conf <<EOF
blocksize 1
parity /tmp/rp/a/p/parity
content /tmp/rp/a/c/content
content /tmp/rp/a/d1/content
data d1 /tmp/rp/a/d1
data d2 /tmp/rp/a/d2
EOF
for i in 1 2 3 4 5 6 7 8; do head -c 40000 /dev/urandom > /tmp/rp/a/d1/f$i; head -c 39000 /dev/urandom > /tmp/rp/a/d2/g$i; done
