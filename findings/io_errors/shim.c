#define _GNU_SOURCE
#include <dlfcn.h>
#include <errno.h>
#include <stdio.h>
#include <stdlib.h>
#include <string.h>
#include <unistd.h>
#include <sys/types.h>
static int count = 0;
static int is_parity(int fd) {
	char p[64], t[4096]; ssize_t n;
	snprintf(p, sizeof p, "/proc/self/fd/%d", fd);
	n = readlink(p, t, sizeof t - 1);
	if (n <= 0) return 0;
	t[n] = 0;
	return strstr(t, getenv("SHIM_MATCH") ? getenv("SHIM_MATCH") : "parity") != 0;
}
ssize_t pwrite(int fd, const void* buf, size_t n, off_t off) {
	static ssize_t (*real)(int, const void*, size_t, off_t);
	if (!real) real = dlsym(RTLD_NEXT, "pwrite");
	if (is_parity(fd)) {
		int k = __sync_add_and_fetch(&count, 1);
		const char* at = getenv("SHIM_FAIL_AT");
		const char* from = getenv("SHIM_FAIL_FROM");
		const char* dl = getenv("SHIM_DELAY_MS");
		if (dl) usleep(atoi(dl) * 1000);
		if ((at && k == atoi(at)) || (from && k >= atoi(from))) {
			fprintf(stderr, "[shim] failing pwrite #%d fd=%d off=%ld with EIO\n", k, fd, (long)off);
			errno = EIO;
			return -1;
		}
	}
	return real(fd, buf, n, off);
}
ssize_t pwrite64(int fd, const void* buf, size_t n, off_t off) { return pwrite(fd, buf, n, off); }
