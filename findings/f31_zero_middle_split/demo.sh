#!/bin/bash
# demo.sh <snapraid binary>
# exit 0: property holds, exit 1: property violated, exit 2: setup problem
SNAP=${1:?usage: demo.sh /path/to/snapraid}
T=$(mktemp -d)
trap 'rm -rf "$T"' EXIT
mkdir -p $T/p $T/c $T/d1 $T/d2
cat > $T/conf <<EOC
blocksize 256
parity $T/p/par.0,$T/p/par.1,$T/p/par.2,$T/p/par.3
content $T/c/content
content $T/c/content2
data d1 $T/d1
data d2 $T/d2
EOC
B=262144
OPT="-c $T/conf --test-skip-device --test-skip-self --test-skip-lock"
S() { timeout 120 $SNAP $OPT "$@"; }
rnd() { head -c $2 /dev/urandom > $1; }
sizes() { stat -c %s $T/p/par.0 $T/p/par.1 $T/p/par.2 $T/p/par.3 | tr '\n' ' '; }

# With 256 KiB blocks and --test-parity-limit=200000 the per split limits are
# 362341, 304692, 247043, 389394 bytes: split 0, 1 and 3 have room for one block,
# split 2 (think of a parity disk that is full) has room for none.
rnd $T/d1/a $((3*B)); rnd $T/d2/b $((2*B+5))
S --test-parity-limit=200000 sync > $T/log1 2>&1 || { cat $T/log1; echo "setup: sync failed"; exit 2; }
before="$(sizes)"
echo "split sizes after first sync : $before"
[ "$before" = "$B $B 0 $B " ] || { echo "setup: unexpected layout"; exit 2; }
S check > $T/logc0 2>&1 || { cat $T/logc0; echo "setup: check failed"; exit 2; }
cp $T/p/par.3 $T/par3.saved   # parity of position 2

# some space is freed on the parity disks (larger limit), one more block is added to the array
rnd $T/d1/a2 $B
S --test-parity-limit=20000000 sync > $T/log2 2>&1 || { cat $T/log2; echo "second sync failed"; exit 2; }
after="$(sizes)"
echo "split sizes after second sync: $after"

bad=0
set -- $before; b0=$1; b1=$2; b2=$3; b3=$4
set -- $after;  a0=$1; a1=$2; a2=$3; a3=$4
# only the last used split (3) may grow, the recorded sizes of 0..2 fix the mapping
if [ "$a0" != "$b0" ] || [ "$a1" != "$b1" ] || [ "$a2" != "$b2" ]; then
	echo "VIOLATION: a split before the last used one changed size ($before -> $after): positions >= 2 now map to another (file, offset)"
	bad=1
fi
if ! cmp -s <(head -c $B $T/p/par.3) $T/par3.saved; then
	echo "VIOLATION: the parity written at position 2 (par.3 offset 0) is gone"
	bad=1
fi
S check > $T/logc 2>&1 || { echo "VIOLATION: check after sync: $(grep -i 'errors' $T/logc | tr -s ' ' | tr '\n' ';')"; bad=1; }
[ $bad -eq 0 ] && echo "OK: property holds"
exit $bad
