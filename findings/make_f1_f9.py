#!/usr/bin/env python3
"""Triage replays (not part of any check): crafted content files for the two repaired decoder defects.
usage: make_f1_f9.py <outdir>; then
  F9: snapraid -C <outdir>/f9.content           (pre-fix: SIGSEGV; post-fix: 'Invalid parity split number')
  F1: needs a conf with two content entries, first = f1.content: snapraid -c conf --test-skip-self --test-skip-device status"""
import sys, os
def b32(v):
    out = bytearray()
    while True:
        b = v & 0x7f; v >>= 7
        if v == 0:
            out.append(b | 0x80); break
        out.append(b)
    return bytes(out)
def bs(s): return b32(len(s)) + s
out = sys.argv[1]
os.makedirs(out, exist_ok=True)
d = bytearray(b"SNAPCNT3\n\x03\x00\x00")
d += b'Q' + b32(0) + b32(0) + b32(0) + b32(300)
for s in range(300):
    d += bs(b"/p/%d" % s) + bs(b"uuid") + b32(0)
open(os.path.join(out, 'f9.content'), 'wb').write(d)
# F1: 'M' record whose name length varint decodes to 0xFFFFFFFF
open(os.path.join(out, 'f1.content'), 'wb').write(b"SNAPCNT2\n\x03\x00\x00" + b"M" + bytes([0x7f, 0x7f, 0x7f, 0x7f, 0x8f]))
