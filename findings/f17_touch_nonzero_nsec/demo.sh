#!/bin/bash
# C12: "touch changes only the sub-second part of time-stamps that were zero"
# touch decides from the CONTENT file (recorded nsec == 0), not from the file on disk.
# exit 0 = property holds, 1 = violated
SNAP=${1:?usage: demo.sh /path/to/snapraid}
T=$(mktemp -d /tmp/c12-touch-nsec.XXXXXX); trap 'rm -rf "$T"' EXIT
mkdir -p $T/d1 $T/p $T/c
cat > $T/conf <<EOC
blocksize 1
parity $T/p/parity
content $T/c/content
data d1 $T/d1
EOC
S() { timeout 120 "$SNAP" -c $T/conf --test-skip-device --test-skip-self "$@"; }
head -c 4096 /dev/urandom > $T/d1/x
head -c 4096 /dev/urandom > $T/d1/y
touch -m -d '2020-01-01 10:00:00' $T/d1/x $T/d1/y      # recorded with nsec == 0
S sync > $T/sync.out 2>&1 || { cat $T/sync.out; echo "setup failed"; exit 2; }
# after the sync both files are rewritten; their mtime now has a NON-zero sub-second part
printf 'EDITED' | dd of=$T/d1/x bs=1 seek=10 conv=notrunc 2>/dev/null
touch -m -d '2020-01-01 10:00:00.123456789' $T/d1/x     # same second, same size
printf 'EDITED' | dd of=$T/d1/y bs=1 seek=10 conv=notrunc 2>/dev/null
touch -m -d '2021-06-06 06:06:06.987654321' $T/d1/y     # other second
S diff > $T/diff0.out 2>&1
echo "diff before touch: $(grep -E '^ +[0-9]+ updated' $T/diff0.out)"
bx=$(stat -c '%y' $T/d1/x); by=$(stat -c '%y' $T/d1/y)
S touch > $T/touch.out 2>&1; echo "touch rc=$?"; grep '^touch' $T/touch.out
ax=$(stat -c '%y' $T/d1/x); ay=$(stat -c '%y' $T/d1/y)
echo "x mtime: $bx -> $ax"
echo "y mtime: $by -> $ay"
S diff > $T/diff1.out 2>&1
echo "diff after touch:  $(grep -E '^ +[0-9]+ updated' $T/diff1.out)"
bad=0
[ "$bx" = "$ax" ] || { echo "VIOLATION: non-zero sub-second mtime of x was replaced"; bad=1; }
[ "$by" = "$ay" ] || { echo "VIOLATION: non-zero sub-second mtime of y was replaced"; bad=1; }
u0=$(grep -E '^ +[0-9]+ updated' $T/diff0.out | awk '{print $1}'); u1=$(grep -E '^ +[0-9]+ updated' $T/diff1.out | awk '{print $1}')
if [ "${u1:-0}" -lt "${u0:-0}" ]; then
  echo "CONSEQUENCE: the edited file x is no longer seen as changed by diff/sync (content was aligned to the new time-stamp): its parity stays stale"
fi
[ $bad = 0 ] && echo "property holds"
exit $bad
