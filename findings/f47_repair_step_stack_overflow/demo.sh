#!/bin/bash
# More than 6 blocks of one stripe fail (outside the "at most np" quantifier of C03: the
# right answer is "unrecoverable"). repair_step() copies the indexes of ALL the failed
# blocks into `int id[LEV_MAX]` (6 entries) before looking at the count.
# The given binary is first run as it is (an hardened build aborts with
# "stack smashing detected"); then the sources next to it are rebuilt with
# AddressSanitizer to make the overflow visible whatever the stack layout.
# exit 0 = no overflow, 1 = overflow, 2 = setup problem
SNAP=${1:?usage: demo.sh /path/to/snapraid}
SNAP=$(readlink -f "$SNAP")
SRC=${SNAPRAID_SRC:-$(dirname "$SNAP")}
T=$(mktemp -d /tmp/c03-ovf.XXXXXX)
trap 'rm -rf "$T"' EXIT
OPTS="--test-skip-device --test-skip-self --test-skip-fallocate"
ND=40
mkdir -p $T/par $T/content
{
echo "blocksize 1"
echo "parity $T/par/parity"
echo "2-parity $T/par/parity2"
echo "content $T/content/c0"
echo "content $T/content/c1"
for ((d=0; d<ND; ++d)); do mkdir -p $T/d$d; echo "data d$d $T/d$d"; head -c 3000 /dev/urandom > $T/d$d/a; done
} > $T/conf
timeout 120 $SNAP -c $T/conf $OPTS sync > $T/sync.log 2>&1 || { tail $T/sync.log; echo "SETUP: sync failed"; exit 2; }
# 36 of the 40 disks lose their file (think of a controller with its disks not mounted)
for ((d=0; d<36; ++d)); do rm $T/d$d/a; done

timeout 120 $SNAP -c $T/conf $OPTS check > $T/check.log 2>&1; RC=$?
echo "given binary: check exit code $RC (1 = errors reported, the expected answer; 134/139 = crash)"
tail -3 $T/check.log
BAD=0
if [ $RC -ge 128 ] || grep -q "stack smashing" $T/check.log; then echo "VIOLATION: the given binary crashed"; BAD=1; fi

if [ -f "$SRC/cmdline/check.c" ] && [ -f "$SRC/Makefile" ]; then
	mkdir $T/build
	(cd "$SRC" && tar -c --exclude='*.o' --exclude=snapraid --exclude=.git --exclude='*.log' . ) | tar -x -C $T/build
	(cd $T/build && make -j8 snapraid CFLAGS="-g -O1 -fsanitize=address -fno-omit-frame-pointer -pthread -Wno-error" > $T/make.log 2>&1) || { tail $T/make.log; echo "SETUP: sanitizer build failed"; exit 2; }
	ASAN_OPTIONS=detect_leaks=0 timeout 300 $T/build/snapraid -c $T/conf $OPTS check > $T/asan.log 2>&1; RCA=$?
	echo "sanitizer build: check exit code $RCA"
	if grep -q "AddressSanitizer" $T/asan.log; then
		grep -m1 "ERROR: AddressSanitizer" $T/asan.log
		grep -m3 "^    #[0-2] " $T/asan.log
		echo "VIOLATION: stack-buffer-overflow"
		BAD=1
	fi
else
	echo "no sources next to the binary (set SNAPRAID_SRC), sanitizer run skipped"
fi
[ $BAD = 0 ] && { echo "OK"; exit 0; }
exit 1
