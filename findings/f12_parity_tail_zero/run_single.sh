#!/bin/bash
# single parity file (sizes not recorded in the content file) cut inside its last block; $1 = snapraid binary, $2 = bytes cut (default 100)
SNAPRAID=$(readlink -f "$1"); CUT=${2:-100}
T=$(mktemp -d /tmp/f13.XXXXXX); trap 'rm -rf "$T"' EXIT
mkdir -p $T/d1 $T/d2 $T/p $T/c1 $T/c2
cat > $T/conf <<C
blocksize 1
parity $T/p/parity
content $T/c1/content
content $T/c2/content
data d1 $T/d1/
data d2 $T/d2/
C
head -c 7000 /dev/urandom > $T/d1/a.bin; head -c 3000 /dev/urandom > $T/d2/b.bin
S="$SNAPRAID --test-skip-device -c $T/conf"
$S sync > $T/sync.out 2>&1 || { echo "SETUP sync failed"; exit 2; }
cp $T/p/parity $T/parity.ref; full=$(stat -c %s $T/p/parity); truncate -s $((full-CUT)) $T/p/parity
rc=0
if [ -n "$SYNC" ]; then $S sync > $T/sync2.out 2>&1; echo "sync on damaged parity: rc=$? size=$(stat -c %s $T/p/parity)"; tail -3 $T/sync2.out; exit 0; fi
$S fix > $T/fix.out 2>&1; r=$?; [ $r -eq 0 ] || { echo "VIOLATION: fix exit status $r: $(grep -i 'error\|warning' $T/fix.out | head -2)"; rc=1; }
cmp $T/p/parity $T/parity.ref || { echo "VIOLATION: parity not restored"; rc=1; }
$S check > $T/check.out 2>&1; r=$?; [ $r -eq 0 ] || { echo "VIOLATION: check after fix exit status $r"; rc=1; }
grep -q "No accessible Parity" $T/check.out && { echo "VIOLATION: check after fix could not use the parity"; rc=1; }
[ $rc -eq 0 ] && echo "OK: property holds"
exit $rc
