#!/usr/bin/env python3
"""Compare two directory trees: entry kinds, file bytes, file mtimes (ns),
symlink targets, hardlink grouping.  Exit 0 if identical, 1 otherwise."""
import os, sys

def scan(root):
    out = {}
    for dp, dns, fns in os.walk(root):
        for n in dns + fns:
            p = os.path.join(dp, n)
            rel = os.path.relpath(p, root)
            st = os.lstat(p)
            if os.path.islink(p):
                out[rel] = ('link', os.readlink(p))
            elif os.path.isdir(p):
                out[rel] = ('dir',)
            else:
                with open(p, 'rb') as f:
                    data = f.read()
                out[rel] = ('file', data, st.st_mtime_ns, st.st_ino)
    return out

def main():
    ref, new = scan(sys.argv[1]), scan(sys.argv[2])
    bad = 0
    for rel in sorted(set(ref) | set(new)):
        a, b = ref.get(rel), new.get(rel)
        if a is None:
            print("EXTRA   %r" % rel); bad = 1; continue
        if b is None:
            print("MISSING %r" % rel); bad = 1; continue
        if a[0] != b[0]:
            print("KIND    %r %s != %s" % (rel, a[0], b[0])); bad = 1; continue
        if a[0] == 'link' and a[1] != b[1]:
            print("TARGET  %r %r != %r" % (rel, a[1], b[1])); bad = 1
        if a[0] == 'file':
            if a[1] != b[1]:
                print("BYTES   %r (len %d vs %d)" % (rel, len(a[1]), len(b[1]))); bad = 1
            if a[2] != b[2]:
                print("MTIME   %r %d != %d" % (rel, a[2], b[2])); bad = 1
    # hardlink groups must be preserved
    def groups(t):
        g = {}
        for rel, v in t.items():
            if v[0] == 'file':
                g.setdefault(v[3], []).append(rel)
        return sorted(sorted(x) for x in g.values() if len(x) > 1)
    if groups(ref) != groups(new):
        print("HARDLINK groups differ: %r vs %r" % (groups(ref), groups(new))); bad = 1
    sys.exit(bad)

main()
