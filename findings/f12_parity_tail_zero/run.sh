#!/bin/bash
# Usage: demo.sh /path/to/snapraid   (the snapraid *binary*)
#
# Property C01: after a clean sync, damage to <= N devices (N = parity levels)
# must be completely repaired by "fix", and a following "check" must be clean.
#
# Array: 1 parity level split over two files (so that the content file records
# the size of each parity file), 2 data disks, 1 KiB blocks.
# Damage: the first parity file loses its last 100 bytes (all zero: padding of the last partial data block) (the cut falls inside
# its last parity block).  One device damaged, N = 1, all the data is intact.
#
# exit 0 = property holds, exit 1 = property violated, exit 2 = setup problem
SNAPRAID=$(readlink -f "$1")
HERE=$(cd "$(dirname "$0")" && pwd)
[ -x "$SNAPRAID" ] || { echo "usage: $0 /path/to/snapraid-binary"; exit 2; }

T=$(mktemp -d /tmp/c01d-b.XXXXXX) || exit 2
[ -n "$KEEP" ] && echo "keeping $T" || trap 'rm -rf "$T"' EXIT
mkdir -p "$T/d1/docs" "$T/d2" "$T/p1" "$T/p2" "$T/c1" "$T/c2" "$T/ref"

cat > "$T/conf" <<CONF
blocksize 1
parity $T/p1/parity.0,$T/p2/parity.1
content $T/c1/content
content $T/c2/content
data d1 $T/d1/
data d2 $T/d2/
CONF

head -c 7000 /dev/urandom > "$T/d1/docs/report.bin"
touch -d '2021-03-04 05:06:07.123456789' "$T/d1/docs/report.bin"
head -c 3000 /dev/urandom > "$T/d2/photo.raw"
touch -d '2020-02-03 04:05:06.987654321' "$T/d2/photo.raw"

S="timeout 120 $SNAPRAID --test-skip-device -c $T/conf"

$S sync > "$T/sync.out" 2>&1 || { cat "$T/sync.out"; echo "SETUP: sync failed"; exit 2; }
$S check > "$T/check0.out" 2>&1 || { cat "$T/check0.out"; echo "SETUP: check after sync failed"; exit 2; }

# independent reference copy of everything (bytes and time-stamps)
cp -a "$T/d1" "$T/ref/d1"; cp -a "$T/d2" "$T/ref/d2"
cp -a "$T/p1/parity.0" "$T/ref/parity1"
full=$(stat -c %s "$T/p1/parity.0")

# damage one device: the parity file loses its tail
truncate -s $((full - 100)) "$T/p1/parity.0"

rc=0
$S fix -l "$T/fix.log" > "$T/fix.out" 2>&1
fixrc=$?
if [ $fixrc -ne 0 ]; then echo "VIOLATION: fix exit status $fixrc"; tail -5 "$T/fix.out"; rc=1; fi
grep -q '^summary:error_unrecoverable:0$' "$T/fix.log" || { echo "VIOLATION: fix reports unrecoverable errors"; rc=1; }

python3 "$HERE/cmptree.py" "$T/ref/d1" "$T/d1" || { echo "VIOLATION: d1 differs from the synced state"; rc=1; }
python3 "$HERE/cmptree.py" "$T/ref/d2" "$T/d2" || { echo "VIOLATION: d2 differs from the synced state"; rc=1; }
cmp "$T/ref/parity1" "$T/p1/parity.0" || { echo "VIOLATION: parity not restored ($(stat -c %s "$T/p1/parity.0") bytes, expected $full)"; rc=1; }

$S check -l "$T/check.log" > "$T/check.out" 2>&1
chkrc=$?
if [ $chkrc -ne 0 ]; then
	echo "VIOLATION: check after fix exit status $chkrc"
	grep -E 'parity_error|^error|summary' "$T/check.log" | head -12
	rc=1
fi

[ $rc -eq 0 ] && echo "OK: property holds" || echo "FAILED: property C01 violated"
exit $rc
