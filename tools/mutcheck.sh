#!/bin/sh
# apply a patch to a scratch worktree and run checks against it.
# usage: mutcheck.sh <patch> <property-id>...   prints "<id> rc=<n>" per check
P="$1"; shift
D=$(mktemp -d /tmp/snapwt.XXXXXX); rmdir "$D"
/verif/tools/scratch.sh new "$D"
if ! git -C "$D" apply "$P"; then echo "PATCH DOES NOT APPLY"; /verif/tools/scratch.sh rm "$D"; exit 3; fi
for id in "$@"; do
  VERIF_REPO="$D" /verif/check "$id" --tier ${TIER:-quick} > "/tmp/mut.$$.$id.log" 2>&1; rc=$?
  echo "$id rc=$rc"; grep -E "VIOLATION|ANALYSIS-BROKEN|^[a-z/].*: rule" "/tmp/mut.$$.$id.log" | head -${NLINES:-6}
  rm -f "/tmp/mut.$$.$id.log"
done
/verif/tools/scratch.sh rm "$D"
