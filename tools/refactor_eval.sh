#!/bin/bash
# developer tool: run every quick check against each behaviour-preserving patch in a directory (false-alarm test).
# usage: refactor_eval.sh <dir with *.diff> [ids...]   -> prints one line per patch: name rc-per-check, and details of non-zero ones
DIR="$1"; shift
IDS="$*"; [ -z "$IDS" ] && IDS="C01 C02 C03 C04 C05 C06 C07 C08 C09 C10 C11 C12 C13 C14 C15 C16 C17 C18 C19 C20"
one() {
  p="$1"; n=$(basename "$p" .diff); tag=$(basename "$DIR")_$n
  D=/tmp/snapverif-ref-$$-$n
  /verif/tools/scratch.sh new "$D" >/dev/null 2>&1 || { echo "$tag: scratch failed"; return; }
  if ! git -C "$D" apply "$p" 2>/dev/null; then echo "$tag: PATCH DOES NOT APPLY"; /verif/tools/scratch.sh rm "$D"; return; fi
  res=""
  for id in $IDS; do
    out=$(VERIF_REPO="$D" /verif/check "$id" --tier quick 2>&1); rc=$?
    res="$res $id:$rc"
    if [ $rc -ne 0 ]; then echo "$out" | grep -E ": rule |ANALYSIS-BROKEN" | head -3 | sed "s#^#    [$tag $id] #"; fi
  done
  echo "$tag:$res"
  /verif/tools/scratch.sh rm "$D"
}
for p in "$DIR"/*.diff; do
  one "$p" &
  while [ $(jobs -r | wc -l) -ge 6 ]; do sleep 1; done
done
wait
