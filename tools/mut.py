#!/usr/bin/env python3
"""developer tool: mutate one string in a scratch worktree of /repo, run checks, clean up.
usage: mut.py <file> <old> <new> [--nth N] [--save patch] -- <id>..."""
import subprocess, sys, tempfile, os
a = sys.argv[1:]
f, old, new = a[0], a[1], a[2]
rest = a[3:]
nth = 0; save = None
while rest and rest[0] != '--':
    if rest[0] == '--nth': nth = int(rest[1]); rest = rest[2:]
    elif rest[0] == '--save': save = rest[1]; rest = rest[2:]
    else: break
ids = rest[1:]
d = tempfile.mkdtemp(prefix='snapwt.', dir='/tmp'); os.rmdir(d)
subprocess.check_call(['/verif/tools/scratch.sh', 'new', d])
try:
    p = os.path.join(d, f)
    s = open(p).read()
    old = old.encode().decode('unicode_escape'); new = new.encode().decode('unicode_escape')
    idx = -1
    for _ in range(nth + 1):
        idx = s.find(old, idx + 1)
        if idx < 0:
            print('OLD STRING NOT FOUND'); sys.exit(3)
    s = s[:idx] + new + s[idx + len(old):]
    open(p, 'w').write(s)
    if save:
        open(save, 'w').write(subprocess.run(['git', '-C', d, 'diff'], capture_output=True, text=True).stdout)
    for i in ids:
        env = dict(os.environ, VERIF_REPO=d)
        r = subprocess.run(['/verif/check', i, '--tier', os.environ.get('TIER', 'quick')], capture_output=True, text=True, env=env)
        print('%s rc=%d' % (i, r.returncode))
        lines = [l for l in r.stdout.splitlines() if 'VIOLATION' in l or 'ANALYSIS-BROKEN' in l or ': rule ' in l]
        print('\n'.join(lines[:int(os.environ.get('NLINES', '6'))]))
finally:
    subprocess.call(['/verif/tools/scratch.sh', 'rm', d])
