#!/usr/local/bin/python3-vt
"""developer tool (false-alarm test): rename every local variable / parameter of the anchor functions, one at a time, in a
scratch worktree, and run the checks that look at that file.  A behaviour-preserving rename must never give exit 1;
exit 2 (analysis broken: the name was an anchor) is listed separately.
usage: rename_fuzz.py [-j N] [function ...]"""
import sys, os, re, subprocess, json, tempfile, shutil
from concurrent.futures import ThreadPoolExecutor
sys.path.insert(0, '/verif'); os.chdir('/verif')
from sa import frontend, ir

FILE_CHECKS = {
    'cmdline/sync.c': ['C04', 'C05', 'C06', 'C07', 'C08', 'C13', 'C19', 'C01'],
    'cmdline/scrub.c': ['C04', 'C08', 'C15', 'C01'],
    'cmdline/check.c': ['C01', 'C04', 'C05', 'C06', 'C07', 'C08', 'C12', 'C17', 'C18', 'C19'],
    'cmdline/scan.c': ['C11', 'C19', 'C05', 'C06', 'C07', 'C14', 'C18'],
    'cmdline/state.c': ['C09', 'C10', 'C16', 'C07', 'C14', 'C06', 'C17', 'C18'],
    'cmdline/parity.c': ['C17', 'C05', 'C08', 'C11', 'C01'], 'cmdline/dry.c': ['C08'],
    'cmdline/handle.c': ['C01', 'C07', 'C08', 'C12'],
    'cmdline/io.c': ['C13', 'C08'],
    'cmdline/elem.c': ['C18', 'C10', 'C06', 'C04', 'C05', 'C11'],
    'cmdline/stream.c': ['C09', 'C10', 'C08', 'C16'],
    'cmdline/support.c': ['C12', 'C08', 'C01'], 'cmdline/rehash.c': ['C04', 'C06'],
    'cmdline/status.c': ['C20'], 'cmdline/pool.c': ['C20', 'C12'], 'cmdline/dup.c': ['C20'], 'cmdline/touch.c': ['C12'],
    'cmdline/import.c': ['C19'], 'cmdline/search.c': ['C19'], 'cmdline/snapraid.c': ['C14', 'C15', 'C16', 'C12', 'C07', 'C09'],
}
DEFAULT_FUNCS = ['state_sync_process', 'state_hash_process', 'state_sync', 'state_scrub_process', 'state_scrub', 'state_check_process', 'repair', 'repair_step',
                 'file_post', 'blockcmp', 'scan_file', 'scan_link', 'scan_file_allocate', 'scan_file_deallocate', 'state_diffscan', 'state_read_content',
                 'state_write_thread', 'state_read', 'state_write_content', 'state_filter', 'parity_chsize', 'parity_split_find', 'parity_read', 'parity_write',
                 'parity_handle_chsize', 'handle_read', 'handle_write', 'handle_create', 'io_writer_step', 'io_reader_step', 'io_write_next_thread', 'filter_element',
                 'filter_apply', 'filter_recurse', 'file_copy', 'sgetb32', 'sputb32', 'sgetbs', 'sflush', 'state_import_fetch', 'search_file_compare',
                 'state_status', 'make_link', 'hash_alloc', 'state_touch', 'state_verify_content', 'block_is_enabled']


def main():
    args = sys.argv[1:]
    jobs = 6
    if args[:1] == ['-j']:
        jobs = int(args[1]); args = args[2:]
    funcs = args or DEFAULT_FUNCS
    P = ir.Program(frontend.build()['whole'])
    work = []
    for fn in funcs:
        for f in P.variants(fn) or ([P.functions[fn]] if fn in P.functions else []):
            if f.decl or not f.file or f.file not in FILE_CHECKS:
                continue
            lines = [i.line for i in f.all_insts() if i.line and i.inl is None]
            if not lines:
                continue
            lo, hi = f.line or min(lines), max(lines) + 1
            names = sorted({i.var for i in f.all_insts() if i.op == 'alloca' and i.var and len(i.var) >= 2 and i.var not in ('retval',)})
            for v in names:
                work.append((fn, f.file, lo, hi, v))
    print('%d rename variants' % len(work), flush=True)

    def one(w):
        fn, file, lo, hi, v = w
        d = tempfile.mkdtemp(prefix='snapverif-rn-', dir='/tmp'); os.rmdir(d)
        try:
            subprocess.run(['/verif/tools/scratch.sh', 'new', d], check=True, capture_output=True)
            p = os.path.join(d, file)
            src = open(p).read().split('\n')
            new = v + '_rn'
            changed = 0
            for k in range(max(lo - 2, 0), min(hi + 1, len(src))):
                s2 = re.sub(r'(?<![\w>.])%s\b' % re.escape(v), new, src[k])
                # do not touch member accesses (x->v, x.v) -- handled by the lookbehind -- nor string literals
                if s2 != src[k] and '"' not in src[k]:
                    src[k] = s2; changed += 1
                elif s2 != src[k]:
                    # rename outside string literals only
                    parts = src[k].split('"')
                    for q in range(0, len(parts), 2):
                        parts[q] = re.sub(r'(?<![\w>.])%s\b' % re.escape(v), new, parts[q])
                    src[k] = '"'.join(parts); changed += 1
            if not changed:
                return (w, 'unchanged', [])
            open(p, 'w').write('\n'.join(src))
            r = subprocess.run(['gcc', '-fsyntax-only', '-w', '-DHAVE_CONFIG_H', '-I.', '-I' + os.path.join(d), file], cwd=d, capture_output=True, text=True)
            if r.returncode != 0:
                return (w, 'does not compile', [])
            res = []
            for cid in FILE_CHECKS[file]:
                r = subprocess.run(['/verif/check', cid], capture_output=True, text=True, env=dict(os.environ, VERIF_REPO=d))
                if r.returncode != 0:
                    msg = [l for l in r.stdout.splitlines() if ': rule ' in l or 'ANALYSIS-BROKEN' in l][:1]
                    res.append((cid, r.returncode, msg[0][:200] if msg else ''))
            return (w, 'ok', res)
        finally:
            subprocess.run(['/verif/tools/scratch.sh', 'rm', d], capture_output=True)
            shutil.rmtree(d, ignore_errors=True)

    viol = broken = 0
    with ThreadPoolExecutor(max_workers=jobs) as ex:
        for w, status, res in ex.map(one, work):
            tag = '%s:%s' % (w[0], w[4])
            if status != 'ok':
                print('%-48s %s' % (tag, status), flush=True)
                continue
            for cid, rc, msg in res:
                if rc == 1:
                    viol += 1
                else:
                    broken += 1
                print('%-48s %s rc=%d %s' % (tag, cid, rc, msg), flush=True)
    print('SUMMARY variants=%d false-violations=%d analysis-broken=%d' % (len(work), viol, broken), flush=True)


main()
