#!/bin/sh
# re-run checks against an already confirmed seed (patch applied to a scratch worktree), update meta.json
# usage: seed_recheck.sh <seed-name> <check-id>...
NAME="$1"; shift
OUT=/verif/seeded/$NAME
D=/tmp/seedc/re_$NAME
rm -rf "$D"; mkdir -p /tmp/seedc
/verif/tools/scratch.sh new "$D" || exit 3
git -C "$D" apply "$OUT/patch.diff" || { echo "patch does not apply"; /verif/tools/scratch.sh rm "$D"; exit 3; }
RES=""
for id in "$@"; do
  VERIF_REPO="$D" /verif/check "$id" --tier quick > "$OUT/check_$id.out" 2>&1; rc=$?
  echo "check $id on modified tree: rc=$rc"; grep -E "^VIOLATION|ANALYSIS-BROKEN|: rule " "$OUT/check_$id.out" | head -3
  RES="$RES $id:$rc"
done
python3 - "$NAME" "$RES" <<'PY'
import json, sys
p = '/verif/seeded/%s/meta.json' % sys.argv[1]
m = json.load(open(p))
for x in sys.argv[2].split():
    k, v = x.split(':'); m['checks_on_modified_tree'][k] = v
json.dump(m, open(p, 'w'), indent=1)
PY
/verif/tools/scratch.sh rm "$D"
