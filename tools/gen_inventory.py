#!/usr/bin/env python3
"""developer tool: regenerate the rule inventory of DESIGN.md section 9.12 from evidence/*.json (the last quick run)"""
import json, glob, os, re
root = os.path.dirname(os.path.dirname(os.path.abspath(__file__)))
rows = []; nr = 0; ni = 0
for p in sorted(glob.glob(os.path.join(root, 'evidence', 'C*.json'))):
    d = json.load(open(p))
    rules = d.get('coverage', {}).get('rule_instances') or {}
    if not rules:
        # find the dict that maps rule ids to {instances, held}
        for v in d.values():
            if isinstance(v, dict) and all(isinstance(x, dict) and 'instances' in x for x in v.values()) and v:
                rules = v
    parts = []
    for rid, r in rules.items():
        parts.append('%s %d/%d' % (rid, r.get('held', 0), r.get('instances', 0)))
        nr += 1; ni += r.get('instances', 0)
    rows.append('| %s | %s |' % (os.path.basename(p)[:-5], ', '.join(parts)))
text = '### 9.12 Rule inventory (generated from evidence/*.json of the last quick run)\n| property | rules (instances that hold / instances) |\n|---|---|\n' + '\n'.join(rows) + \
    '\n\n%d rules, %d rule instances in the quick tier; the sentence each rule decides is the `rule` text in the evidence file and in the rule module (`sa/rules/<id>.py`, shared rules in `carried.py`).\n' % (nr, ni)
dp = os.path.join(root, 'DESIGN.md')
s = open(dp).read()
a = s.index('### 9.12 Rule inventory')
m = re.search(r'\n### 9\.1[3-9]|\n## 1\d', s[a + 10:])
b = a + 10 + m.start() + 1 if m else len(s)
open(dp, 'w').write(s[:a] + text + ('\n' if m else '') + s[b:])
print(nr, ni)
