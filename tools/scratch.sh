#!/bin/sh
# scratch worktree of /repo outside /repo and /verif, with the generated build files the analysis needs
# usage: scratch.sh new <dir> | scratch.sh rm <dir>
set -e
case "$1" in
 new) git -C /repo worktree add --detach -f "$2" >/dev/null 2>&1
      for f in config.h Makefile Makefile.in config.status; do [ -f /repo/$f ] && cp /repo/$f "$2"/ ; done ;;
 rm)  git -C /repo worktree remove --force "$2" 2>/dev/null || rm -rf "$2"; git -C /repo worktree prune ;;
esac
