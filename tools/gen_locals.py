#!/usr/local/bin/python3-vt
"""(re)generate ref/locals.json from the tree in $VERIF_REPO (default /repo): for every function of cmdline/ the names and types
of its locals and parameters in declaration order.  The rules name locals as the pinned tree does; on a later tree a local whose
name is unknown to the reference is matched (same function, same type, same relative order) with the reference local that
disappeared, so that a pure rename does not move the anchors (sa/ir.py: Program._apply_local_map)."""
import json, os, sys
sys.path.insert(0, os.path.dirname(os.path.dirname(os.path.abspath(__file__))))
os.environ['VERIF_NO_LOCALMAP'] = '1'
from sa import frontend, ir
b = frontend.build()
P = ir.Program(b['whole'])
out = {}
for f in P.defined():
    if not (f.file or '').startswith('cmdline/'):
        continue
    loc = [[i.var, i.vty or ''] for i in f.all_insts() if i.op == 'alloca' and i.var]
    if loc:
        out[ir.base(f.name) + '@' + f.file] = loc
json.dump(out, open(os.path.join(frontend.VERIF, 'ref', 'locals.json'), 'w'), indent=0, sort_keys=True)
print('%d functions' % len(out))
