#!/bin/sh
# create a buildable scratch worktree of /repo HEAD at $1 (outside /repo and /verif)
set -e
D="$1"
git -C /repo worktree add --detach -f "$D" >/dev/null 2>&1
rsync -a --exclude .git --exclude '*.o' --exclude 'bench' --exclude '*.log' --exclude '/snapraid' --exclude '/mktest' --exclude '/mkstream' --exclude 'stream*.bin' --exclude '*.gcda' --exclude '*.gcno' /repo/ "$D"/
