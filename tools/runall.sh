#!/bin/sh
# run every registered quick (or $1=thorough) command on /repo and validate the evidence files
cd /verif
python3-vt - "$1" <<'PY'
import json, subprocess, sys, time, jsonschema
tier = sys.argv[1] if len(sys.argv) > 1 and sys.argv[1] else 'quick'
m = json.load(open('MANIFEST.json'))
jsonschema.validate(m, json.load(open('/root/.vp/MANIFEST.schema.json')))
sch = json.load(open('/root/.vp/EVIDENCE.schema.json'))
bad = 0
for c in m['checks']:
    cmd = c['quick_cmd'] if tier == 'quick' else c.get('thorough_cmd', c['quick_cmd'])
    t = time.time()
    r = subprocess.run(cmd, shell=True, capture_output=True, text=True)
    ev = json.load(open(c['evidence_file']))
    try:
        jsonschema.validate(ev, sch); okev = ev['level'] == c['level_claimed']['category'] and ev['tier'] == tier
        if ev['level'] == 'proof': okev = okev and ev['coverage']['obligations'] == ev['coverage']['discharged']   # a proof has no open obligation (a known finding means the level is not `proof`)
    except Exception as e:
        okev = False
    last = r.stdout.strip().splitlines()[-1] if r.stdout.strip() else ''
    print('%s rc=%d evidence=%s %.1fs  %s' % (c['property_id'], r.returncode, 'ok' if okev else 'BAD', time.time() - t, last[:120]))
    if r.returncode != 0 or not okev: bad += 1
    for l in r.stdout.splitlines():
        if l.startswith('KNOWN-FINDING') or l.startswith('VIOLATION') or l.startswith('ANALYSIS'): print('   ', l[:200])
ids = {c['property_id'] for c in m['checks']} | {x['property_id'] for x in m.get('not_applicable', [])}
print('claimed+na:', len(ids), 'bad:', bad)
sys.exit(1 if bad else 0)
PY
