#!/usr/local/bin/python3-vt
"""(re)generate the frozen reference objects from the tree in $VERIF_REPO (default /repo):
ref/content_grammar.json (on-disk format of the reference version) and ref/hash_schedule.json.
Run once on the pinned tree; the files are committed and only read by the checks."""
import json, os, sys
sys.path.insert(0, os.path.dirname(os.path.dirname(os.path.abspath(__file__))))
from sa import frontend, ir, grammar, hashsched
from sa.rules import C10
b = frontend.build()
P = ir.Program(b['whole'])
rg, rh, rf, wg, wh, wf, pruned = C10.codec_grammars(P)
ref = {'reader_headers': rh, 'writer_headers': wh, 'reader': grammar.to_json(rg), 'writer': grammar.to_json(wg)}
json.dump(ref, open(os.path.join(frontend.VERIF, 'ref', 'content_grammar.json'), 'w'), indent=0, sort_keys=True)
O1 = ir.Program(b['util_O1'])
json.dump(hashsched.all_schedules(O1), open(os.path.join(frontend.VERIF, 'ref', 'hash_schedule.json'), 'w'), indent=0, sort_keys=True)
print('reference objects written')
