#!/bin/sh
# confirm a seeded change produced by a sub-agent and evaluate the checks against it.
# usage: seed_confirm.sh <seed-name> <property-id> <dir-with patch.diff+demo.sh> [more check ids...]
# writes /verif/seeded/<seed-name>/{patch.diff,demo*,notes.md,confirm.log,meta.json}
NAME="$1"; PID="$2"; SRC="$3"; shift 3
OUT=/verif/seeded/$NAME
mkdir -p "$OUT"
cp -r "$SRC"/* "$OUT"/ 2>/dev/null
D=/tmp/seedc/$NAME
rm -rf "$D"; mkdir -p /tmp/seedc
/verif/tools/seedwt.sh "$D" || exit 3
LOG="$OUT/confirm.log"; : > "$LOG"
if ! git -C "$D" apply "$OUT/patch.diff" 2>>"$LOG"; then echo "patch does not apply" | tee -a "$LOG"; /verif/tools/scratch.sh rm "$D"; exit 3; fi
( cd "$D" && make -j16 snapraid >/dev/null 2>>"$LOG" ) || { echo "build failed" | tee -a "$LOG"; }
chmod +x "$OUT/demo.sh" 2>/dev/null
( cd "$OUT" && timeout 900 ./demo.sh /repo/snapraid > "$OUT/demo_orig.out" 2>&1 ); RC_ORIG=$?
( cd "$OUT" && timeout 900 ./demo.sh "$D/snapraid" > "$OUT/demo_mod.out" 2>&1 ); RC_MOD=$?
echo "demo on unmodified: rc=$RC_ORIG ; demo on modified: rc=$RC_MOD" | tee -a "$LOG"
CHK=""
for id in $PID "$@"; do
  VERIF_REPO="$D" /verif/check "$id" --tier quick > "$OUT/check_$id.out" 2>&1; rc=$?
  echo "check $id on modified tree: rc=$rc" | tee -a "$LOG"
  grep -E "^VIOLATION|ANALYSIS-BROKEN|: rule " "$OUT/check_$id.out" | head -5 | tee -a "$LOG"
  CHK="$CHK $id:$rc"
done
( cd "$D" && timeout 5400 make check > "$OUT/makecheck.out" 2>&1 ); RC_MC=$?
tail -4 "$OUT/makecheck.out" | head -3 >> "$LOG"
echo "make check on modified tree: rc=$RC_MC" | tee -a "$LOG"
python3 - "$NAME" "$PID" "$RC_ORIG" "$RC_MOD" "$RC_MC" "$CHK" <<'PY'
import json, sys
name, pid, ro, rm, mc, chk = sys.argv[1:7]
meta = {"seed": name, "breaks_property": pid, "demo_rc_unmodified": int(ro), "demo_rc_modified": int(rm), "make_check_rc_modified": int(mc),
        "checks_on_modified_tree": dict(x.split(':') for x in chk.split()), "confirmed": int(ro) == 0 and int(rm) != 0 and int(mc) == 0,
        "what_i_ran": "tools/seed_confirm.sh: fresh scratch worktree of /repo HEAD, git apply patch.diff, make, demo.sh on /repo/snapraid and on the modified build, ./check <id> with VERIF_REPO=<scratch>, make check in the scratch tree; scratch removed afterwards",
        "needs_to_manifest": "see notes.md"}
json.dump(meta, open('/verif/seeded/%s/meta.json' % name, 'w'), indent=1)
print(json.dumps(meta))
PY
rm -f "$OUT/makecheck.out"
/verif/tools/scratch.sh rm "$D"
