#!/bin/sh
set -e
cd "$(dirname "$0")"
./extract/build.sh
